module simbuild

go 1.23
