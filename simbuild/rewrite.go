package main

// go/ast rewriter: adds the simulator's seams to a scratch copy of PD.
// Rules R1..R5 are described in DESIGN.md §2.1.

import (
	"bytes"
	"fmt"
	"go/ast"
	"go/parser"
	"go/printer"
	"go/token"
	"os"
	"path/filepath"
	"strconv"
	"strings"
)

type stats struct {
	syncImports, goStmts, resumes, ctors, wallNow, etcdLeader, rangeChan, diskWrites int
	unhandled                                                                        []string
}

const (
	simrtPath   = "pdsim/simrt"
	ssyncPath   = "pdsim/simrt/ssync"
	simetcdPath = "pdsim/simetcd"
	simnetPath  = "pdsim/simnet"
	simdiskPath = "pdsim/simdisk"
)

// files (relative to repo root) whose `for range X` loops range over a channel, by loop expression text.
var rangeChanSites = map[string][]string{
	"server/region_syncer/client.go": {},
}

type rewriter struct {
	fset    *token.FileSet
	file    *ast.File
	rel     string
	pkgDir  string
	st      *stats
	needs   map[string]string // import path -> name
	tmpN    int
	changed bool
}

func (r *rewriter) need(path, name string) { r.needs[path] = name; r.changed = true }

func sel(x, s string) *ast.SelectorExpr {
	return &ast.SelectorExpr{X: ast.NewIdent(x), Sel: ast.NewIdent(s)}
}

func callStmt(x, s string, args ...ast.Expr) *ast.ExprStmt {
	return &ast.ExprStmt{X: &ast.CallExpr{Fun: sel(x, s), Args: args}}
}

func (r *rewriter) resumeStmt() ast.Stmt {
	r.need(simrtPath, "simrt")
	r.st.resumes++
	return callStmt("simrt", "Resume")
}

func isSel(e ast.Expr, x, s string) bool {
	se, ok := e.(*ast.SelectorExpr)
	if !ok {
		return false
	}
	id, ok := se.X.(*ast.Ident)
	return ok && id.Name == x && se.Sel.Name == s
}

// blocksOutside reports whether a simple statement contains an operation that may
// block outside the simulator's knowledge (not descending into func literals).
func blocksOutside(n ast.Node) bool {
	found := false
	ast.Inspect(n, func(m ast.Node) bool {
		if found {
			return false
		}
		switch v := m.(type) {
		case *ast.FuncLit:
			return false
		case *ast.UnaryExpr:
			if v.Op == token.ARROW {
				found = true
			}
		case *ast.SendStmt:
			found = true
		case *ast.CallExpr:
			if se, ok := v.Fun.(*ast.SelectorExpr); ok {
				if se.Sel.Name == "Wait" {
					// wg.Wait(), cond.Wait(), limiter.Wait(n): all may sleep or block
					found = true
				}
				if isSel(v.Fun, "time", "Sleep") {
					found = true
				}
			}
		}
		return true
	})
	return found
}

func hasRecv(n ast.Node) bool {
	found := false
	ast.Inspect(n, func(m ast.Node) bool {
		switch v := m.(type) {
		case *ast.FuncLit:
			return false
		case *ast.UnaryExpr:
			if v.Op == token.ARROW {
				found = true
			}
		}
		return !found
	})
	return found
}

func hasDefault(s *ast.SelectStmt) bool {
	for _, c := range s.Body.List {
		if cc := c.(*ast.CommClause); cc.Comm == nil {
			return true
		}
	}
	return false
}

// rewriteBlock processes a statement list, returning the new list.
func (r *rewriter) rewriteList(list []ast.Stmt) []ast.Stmt {
	var out []ast.Stmt
	for _, s := range list {
		out = append(out, r.rewriteStmt(s)...)
	}
	return out
}

func (r *rewriter) rewriteBlockStmt(b *ast.BlockStmt) {
	if b == nil {
		return
	}
	b.List = r.rewriteList(b.List)
}

// rewriteFuncLits descends into expressions to process function literal bodies.
func (r *rewriter) rewriteFuncLits(n ast.Node) {
	if n == nil {
		return
	}
	ast.Inspect(n, func(m ast.Node) bool {
		if fl, ok := m.(*ast.FuncLit); ok {
			r.rewriteBlockStmt(fl.Body)
			return false
		}
		return true
	})
}

func (r *rewriter) rewriteStmt(s ast.Stmt) []ast.Stmt {
	switch v := s.(type) {
	case *ast.BlockStmt:
		r.rewriteBlockStmt(v)
		return []ast.Stmt{v}
	case *ast.IfStmt:
		if v.Init != nil && blocksOutside(v.Init) || blocksOutside(v.Cond) {
			r.st.unhandled = append(r.st.unhandled, r.pos(v)+": blocking op in if header")
		}
		r.rewriteFuncLits(v.Init)
		r.rewriteFuncLits(v.Cond)
		r.rewriteBlockStmt(v.Body)
		if v.Else != nil {
			e := r.rewriteStmt(v.Else)
			v.Else = e[0]
		}
		return []ast.Stmt{v}
	case *ast.ForStmt:
		if v.Init != nil && blocksOutside(v.Init) || v.Cond != nil && blocksOutside(v.Cond) || v.Post != nil && blocksOutside(v.Post) {
			r.st.unhandled = append(r.st.unhandled, r.pos(v)+": blocking op in for header")
		}
		r.rewriteFuncLits(v.Init)
		r.rewriteFuncLits(v.Cond)
		r.rewriteFuncLits(v.Post)
		r.rewriteBlockStmt(v.Body)
		return []ast.Stmt{v}
	case *ast.RangeStmt:
		r.rewriteFuncLits(v.X)
		r.rewriteBlockStmt(v.Body)
		if r.isRangeChan(v) {
			v.Body.List = append([]ast.Stmt{r.resumeStmt()}, v.Body.List...)
			r.st.rangeChan++
		}
		return []ast.Stmt{v}
	case *ast.SwitchStmt:
		r.rewriteFuncLits(v.Init)
		r.rewriteFuncLits(v.Tag)
		for _, c := range v.Body.List {
			cc := c.(*ast.CaseClause)
			for _, e := range cc.List {
				r.rewriteFuncLits(e)
			}
			cc.Body = r.rewriteList(cc.Body)
		}
		return []ast.Stmt{v}
	case *ast.TypeSwitchStmt:
		r.rewriteFuncLits(v.Init)
		r.rewriteFuncLits(v.Assign)
		for _, c := range v.Body.List {
			cc := c.(*ast.CaseClause)
			cc.Body = r.rewriteList(cc.Body)
		}
		return []ast.Stmt{v}
	case *ast.SelectStmt:
		blocking := !hasDefault(v)
		for _, c := range v.Body.List {
			cc := c.(*ast.CommClause)
			if cc.Comm != nil {
				r.rewriteFuncLits(cc.Comm)
			}
			cc.Body = r.rewriteList(cc.Body)
			if blocking {
				cc.Body = append([]ast.Stmt{r.resumeStmt()}, cc.Body...)
			}
		}
		return []ast.Stmt{v}
	case *ast.LabeledStmt:
		inner := r.rewriteStmt(v.Stmt)
		v.Stmt = inner[0]
		return append([]ast.Stmt{v}, inner[1:]...)
	case *ast.GoStmt:
		return r.rewriteGo(v)
	case *ast.DeferStmt:
		r.rewriteFuncLits(v.Call)
		return []ast.Stmt{v}
	case *ast.ReturnStmt:
		if hasRecv(v) {
			r.st.unhandled = append(r.st.unhandled, r.pos(v)+": blocking op in return")
		}
		r.rewriteFuncLits(v)
		return []ast.Stmt{v}
	case *ast.ExprStmt, *ast.AssignStmt, *ast.SendStmt, *ast.DeclStmt, *ast.IncDecStmt:
		r.rewriteFuncLits(v)
		if blocksOutside(v) {
			return []ast.Stmt{v, r.resumeStmt()}
		}
		return []ast.Stmt{v}
	default:
		return []ast.Stmt{s}
	}
}

func (r *rewriter) pos(n ast.Node) string {
	p := r.fset.Position(n.Pos())
	return fmt.Sprintf("%s:%d", r.rel, p.Line)
}

func (r *rewriter) isRangeChan(v *ast.RangeStmt) bool {
	// syntactic: `for x := range someChan` where the site is listed, or the
	// ranged expression's name ends in "Ch"/"Chan"/"C".
	var name string
	switch x := v.X.(type) {
	case *ast.Ident:
		name = x.Name
	case *ast.SelectorExpr:
		name = x.Sel.Name
	default:
		return false
	}
	if v.Value != nil {
		return false // channels have a single iteration variable
	}
	ln := strings.ToLower(name)
	return strings.HasSuffix(ln, "ch") || strings.HasSuffix(ln, "chan") || strings.HasSuffix(ln, "queue") && strings.Contains(ln, "flow")
}

func isConstExpr(e ast.Expr) bool {
	switch v := e.(type) {
	case *ast.BasicLit:
		return true
	case *ast.Ident:
		return v.Name == "nil" || v.Name == "true" || v.Name == "false"
	}
	return false
}

// rewriteGo turns `go f(a, b)` into
//
//	{ _simf := f; _sima0 := a; simrt.Go(func() { _simf(_sima0, ...) }) }
//
// preserving argument evaluation time.
func (r *rewriter) rewriteGo(g *ast.GoStmt) []ast.Stmt {
	r.need(simrtPath, "simrt")
	r.st.goStmts++
	call := g.Call
	if fl, ok := call.Fun.(*ast.FuncLit); ok {
		r.rewriteBlockStmt(fl.Body)
		if len(call.Args) == 0 && (fl.Type.Params == nil || len(fl.Type.Params.List) == 0) {
			return []ast.Stmt{callStmt("simrt", "Go", fl)}
		}
	}
	var pre []ast.Stmt
	r.tmpN++
	base := fmt.Sprintf("_sim%d", r.tmpN)
	fname := base + "f"
	pre = append(pre, &ast.AssignStmt{Lhs: []ast.Expr{ast.NewIdent(fname)}, Tok: token.DEFINE, Rhs: []ast.Expr{call.Fun}})
	var args []ast.Expr
	for i, a := range call.Args {
		r.rewriteFuncLits(a)
		if isConstExpr(a) {
			args = append(args, a)
			continue
		}
		an := fmt.Sprintf("%sa%d", base, i)
		pre = append(pre, &ast.AssignStmt{Lhs: []ast.Expr{ast.NewIdent(an)}, Tok: token.DEFINE, Rhs: []ast.Expr{a}})
		args = append(args, ast.NewIdent(an))
	}
	inner := &ast.CallExpr{Fun: ast.NewIdent(fname), Args: args, Ellipsis: call.Ellipsis}
	if call.Ellipsis != token.NoPos {
		inner.Ellipsis = 1
	}
	lit := &ast.FuncLit{Type: &ast.FuncType{Params: &ast.FieldList{}}, Body: &ast.BlockStmt{List: []ast.Stmt{&ast.ExprStmt{X: inner}}}}
	pre = append(pre, callStmt("simrt", "Go", lit))
	return []ast.Stmt{&ast.BlockStmt{List: pre}}
}

// rewriteCalls applies R4 (constructor redirection) and R5 (TSO wall clock).
func (r *rewriter) rewriteCalls() {
	tsoPkg := r.pkgDir == "server/tso"
	kvPkg := r.pkgDir == "server/kv"
	ast.Inspect(r.file, func(n ast.Node) bool {
		ce, ok := n.(*ast.CallExpr)
		if !ok {
			return true
		}
		se, ok := ce.Fun.(*ast.SelectorExpr)
		if !ok {
			return true
		}
		x, ok := se.X.(*ast.Ident)
		if !ok {
			return true
		}
		switch {
		case x.Name == "clientv3" && (se.Sel.Name == "NewKV" || se.Sel.Name == "NewLease" || se.Sel.Name == "NewWatcher"):
			x.Name = "simetcd"
			r.need(simetcdPath, "simetcd")
			r.st.ctors++
		case x.Name == "pdpb" && se.Sel.Name == "NewPDClient":
			x.Name = "simnet"
			r.need(simnetPath, "simnet")
			r.st.ctors++
		case x.Name == "grpcutil" && se.Sel.Name == "GetClientConn":
			x.Name = "simnet"
			r.need(simnetPath, "simnet")
			r.st.ctors++
		case r.rel == "server/region_syncer/client.go" && x.Name == "conn" && se.Sel.Name == "Close" && len(ce.Args) == 0:
			ce.Fun = sel("simnet", "CloseConn")
			ce.Args = []ast.Expr{ast.NewIdent("conn")}
			r.need(simnetPath, "simnet")
			r.st.ctors++
		case kvPkg && x.Name == "leveldb" && se.Sel.Name == "OpenFile":
			x.Name = "simdisk"
			se.Sel.Name = "Open"
			r.need(simdiskPath, "simdisk")
			r.st.ctors++
		case tsoPkg && x.Name == "time" && se.Sel.Name == "Now" && len(ce.Args) == 0:
			x.Name = "simrt"
			se.Sel.Name = "WallNow"
			r.need(simrtPath, "simrt")
			r.st.wallNow++
		case tsoPkg && x.Name == "time" && se.Sel.Name == "Since" && len(ce.Args) == 1:
			// time.Since(x) -> simrt.WallNow().Sub(x)
			arg := ce.Args[0]
			ce.Fun = &ast.SelectorExpr{X: &ast.CallExpr{Fun: sel("simrt", "WallNow")}, Sel: ast.NewIdent("Sub")}
			ce.Args = []ast.Expr{arg}
			r.need(simrtPath, "simrt")
			r.st.wallNow++
		}
		return true
	})
}

// rewriteEtcdLeader replaces the body of (*Member).GetEtcdLeader.
func (r *rewriter) rewriteEtcdLeader() {
	if r.rel != "server/member/member.go" {
		return
	}
	for _, d := range r.file.Decls {
		fd, ok := d.(*ast.FuncDecl)
		if !ok || fd.Name.Name != "GetEtcdLeader" || fd.Recv == nil {
			continue
		}
		recv := fd.Recv.List[0].Names[0].Name
		fd.Body.List = []ast.Stmt{&ast.ReturnStmt{Results: []ast.Expr{
			&ast.CallExpr{Fun: sel("simetcd", "EtcdLeaderOf"), Args: []ast.Expr{sel(recv, "client")}},
		}}}
		r.need(simetcdPath, "simetcd")
		r.st.etcdLeader++
	}
}

// rewriteDiskWrites (R6) makes every write of the leveldb-backed kv a scheduling and fault point:
//
//	if err := simdisk.BeforeWrite("<method>"); err != nil { return err }
//
// is prepended to (*LeveldbKV).Save / Remove / SaveRegions.
func (r *rewriter) rewriteDiskWrites() {
	if r.rel != "server/kv/levedb_kv.go" {
		return
	}
	for _, d := range r.file.Decls {
		fd, ok := d.(*ast.FuncDecl)
		if !ok || fd.Recv == nil || fd.Body == nil {
			continue
		}
		switch fd.Name.Name {
		case "Save", "Remove", "SaveRegions":
		default:
			continue
		}
		pre := &ast.IfStmt{
			Init: &ast.AssignStmt{Lhs: []ast.Expr{ast.NewIdent("err")}, Tok: token.DEFINE, Rhs: []ast.Expr{
				&ast.CallExpr{Fun: sel("simdisk", "BeforeWrite"), Args: []ast.Expr{&ast.BasicLit{Kind: token.STRING, Value: strconv.Quote(fd.Name.Name)}}}}},
			Cond: &ast.BinaryExpr{X: ast.NewIdent("err"), Op: token.NEQ, Y: ast.NewIdent("nil")},
			Body: &ast.BlockStmt{List: []ast.Stmt{&ast.ReturnStmt{Results: []ast.Expr{ast.NewIdent("err")}}}},
		}
		fd.Body.List = append([]ast.Stmt{pre}, fd.Body.List...)
		r.need(simdiskPath, "simdisk")
		r.st.diskWrites++
		r.changed = true
	}
}

func (r *rewriter) rewriteImports() {
	// R1: "sync" -> ssync (package name sync)
	for _, im := range r.file.Imports {
		p, _ := strconv.Unquote(im.Path.Value)
		if p == "sync" && im.Name == nil {
			im.Path.Value = strconv.Quote(ssyncPath)
			im.Name = ast.NewIdent("sync")
			r.st.syncImports++
			r.changed = true
		}
	}
}

func (r *rewriter) addImports() {
	have := map[string]bool{}
	for _, im := range r.file.Imports {
		p, _ := strconv.Unquote(im.Path.Value)
		have[p] = true
	}
	var specs []ast.Spec
	for p, name := range r.needs {
		if have[p] {
			continue
		}
		specs = append(specs, &ast.ImportSpec{Name: ast.NewIdent(name), Path: &ast.BasicLit{Kind: token.STRING, Value: strconv.Quote(p)}})
	}
	if len(specs) == 0 {
		return
	}
	// deterministic order
	for i := 0; i < len(specs); i++ {
		for j := i + 1; j < len(specs); j++ {
			if specs[j].(*ast.ImportSpec).Path.Value < specs[i].(*ast.ImportSpec).Path.Value {
				specs[i], specs[j] = specs[j], specs[i]
			}
		}
	}
	gd := &ast.GenDecl{Tok: token.IMPORT, Lparen: 1, Specs: specs, Rparen: 1}
	// insert after the last import decl
	idx := 0
	for i, d := range r.file.Decls {
		if g, ok := d.(*ast.GenDecl); ok && g.Tok == token.IMPORT {
			idx = i + 1
		}
	}
	decls := append([]ast.Decl{}, r.file.Decls[:idx]...)
	decls = append(decls, gd)
	decls = append(decls, r.file.Decls[idx:]...)
	r.file.Decls = decls
}

// unusedImport reports whether package name is no longer referenced.
func (r *rewriter) dropUnusedImports() {
	used := map[string]bool{}
	ast.Inspect(r.file, func(n ast.Node) bool {
		if se, ok := n.(*ast.SelectorExpr); ok {
			if id, ok := se.X.(*ast.Ident); ok {
				used[id.Name] = true
			}
		}
		return true
	})
	check := map[string]string{
		"go.etcd.io/etcd/clientv3":            "clientv3",
		"github.com/syndtr/goleveldb/leveldb": "leveldb",
		"github.com/tikv/pd/pkg/grpcutil":     "grpcutil",
		"github.com/pingcap/kvproto/pkg/pdpb": "pdpb",
		"time":                                "time",
	}
	for _, d := range r.file.Decls {
		g, ok := d.(*ast.GenDecl)
		if !ok || g.Tok != token.IMPORT {
			continue
		}
		var keep []ast.Spec
		for _, sp := range g.Specs {
			im := sp.(*ast.ImportSpec)
			p, _ := strconv.Unquote(im.Path.Value)
			name, watched := check[p]
			if im.Name != nil {
				name = im.Name.Name
			}
			if watched && im.Name == nil && !used[name] {
				// make it a blank import to keep side effects and compile cleanly
				im.Name = ast.NewIdent("_")
			}
			keep = append(keep, sp)
		}
		g.Specs = keep
	}
}

func rewriteFile(path, rel string, st *stats) error {
	fset := token.NewFileSet()
	src, err := os.ReadFile(path)
	if err != nil {
		return err
	}
	f, err := parser.ParseFile(fset, path, src, parser.ParseComments)
	if err != nil {
		return err
	}
	r := &rewriter{fset: fset, file: f, rel: rel, pkgDir: filepath.ToSlash(filepath.Dir(rel)), st: st, needs: map[string]string{}}
	before := *st
	r.rewriteImports()
	for _, d := range f.Decls {
		if fd, ok := d.(*ast.FuncDecl); ok && fd.Body != nil {
			r.rewriteBlockStmt(fd.Body)
		} else if gd, ok := d.(*ast.GenDecl); ok {
			r.rewriteFuncLits(gd)
		}
	}
	r.rewriteCalls()
	r.rewriteEtcdLeader()
	r.rewriteDiskWrites()
	if before.syncImports == st.syncImports && before.goStmts == st.goStmts && before.resumes == st.resumes &&
		before.ctors == st.ctors && before.wallNow == st.wallNow && before.etcdLeader == st.etcdLeader && !r.changed {
		return nil
	}
	r.addImports()
	r.dropUnusedImports()
	var buf bytes.Buffer
	cfg := printer.Config{Mode: printer.UseSpaces | printer.TabIndent, Tabwidth: 8}
	if err := cfg.Fprint(&buf, fset, f); err != nil {
		return fmt.Errorf("%s: print: %v", rel, err)
	}
	return os.WriteFile(path, buf.Bytes(), 0o644)
}
