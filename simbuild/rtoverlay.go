package main

// Runtime overlay: removes Go's own nondeterminism (map iteration order, select
// choice, hash seeds) and exports goroutine id + synctest entry points to simrt.

import (
	"encoding/json"
	"fmt"
	"os"
	"path/filepath"
	"strings"
)

type subst struct {
	old, new string
	count    int // expected number of occurrences (-1: at least one)
}

func applySubst(src string, subs []subst, file string) (string, error) {
	for _, s := range subs {
		n := strings.Count(src, s.old)
		if n == 0 || (s.count > 0 && n != s.count) {
			return "", fmt.Errorf("runtime overlay: anchor %q in %s: found %d, want %d", s.old, file, n, s.count)
		}
		src = strings.ReplaceAll(src, s.old, s.new)
	}
	return src, nil
}

func genRuntimeOverlay(goroot, outDir string) (string, error) {
	files := map[string][]subst{
		"src/internal/runtime/maps/map.go": {
			{"m.seed = uintptr(rand())", "m.seed = 0", -1},
		},
		"src/internal/runtime/maps/table.go": {
			{"it.entryOffset = rand()", "it.entryOffset = 0", 1},
			{"it.dirOffset = rand()", "it.dirOffset = 0", 1},
		},
		"src/runtime/alg.go": {
			{"hashkey[i] = uintptr(bootstrapRand())", "hashkey[i] = uintptr(0x9e3779b97f4a7c15>>(uint(i)&7)) | 1", 1},
			{"key[i] = bootstrapRand()", "key[i] = 0x9e3779b97f4a7c15 + uint64(i)*0x632be59bd9b4e019", 1},
		},
		"src/runtime/select.go": {
			{"j := cheaprandn(uint32(norder + 1))", "j := uint32(norder)", 1},
		},
		"src/runtime/time.go": {
			// Go randomizes the order of same-instant fake timers on purpose; use the order of arming instead
			// (arming order follows select's lock order, i.e. channel addresses: not reproducible either, so the
			// tie-break is the order of timer creation)
			{"t.rand = cheaprand()", "_ = t", 1},
			{"lockInit(&t.mu, lockRankTimer)\n\tt.f = f", "lockInit(&t.mu, lockRankTimer)\n\tt.rand = pdsimTimerSeq.Add(1)\n\tt.f = f", 1},
		},
		"src/runtime/rand.go": {
			{"//go:nosplit\n//go:linkname rand\nfunc rand() uint64 {", "//go:nosplit\nfunc randReal() uint64 {", 1},
			{"mp.cheaprand = rand()", "mp.cheaprand = randReal()", 1},
		},
	}
	const randTail = `

// --- pdsim overlay ---

// rand is called by compiler-generated code (map seeds) and by math/rand's
// unseeded global source; in the simulator it is a constant.
//
//go:nosplit
//go:linkname rand
func rand() uint64 { return 0 }

//go:linkname pdsimGoid pdsim/simrt.runtimeGoid
func pdsimGoid() uint64 { return getg().goid }

//go:linkname pdsimBubbleRun pdsim/simrt.bubbleRun
func pdsimBubbleRun(f func()) { synctestRun(f) }

//go:linkname pdsimBubbleWait pdsim/simrt.bubbleWait
func pdsimBubbleWait() { synctestWait() }
`
	ov := map[string]string{}
	for rel, subs := range files {
		srcPath := filepath.Join(goroot, rel)
		b, err := os.ReadFile(srcPath)
		if err != nil {
			return "", err
		}
		out, err := applySubst(string(b), subs, rel)
		if err != nil {
			return "", err
		}
		if rel == "src/runtime/rand.go" {
			out += randTail
		}
		if rel == "src/runtime/time.go" {
			out += "\n// pdsim overlay: arming sequence number used to order same-instant fake timers\nvar pdsimTimerSeq atomic.Uint32\n"
		}
		dst := filepath.Join(outDir, strings.ReplaceAll(rel, "/", "_"))
		if err := os.WriteFile(dst, []byte(out), 0o644); err != nil {
			return "", err
		}
		ov[srcPath] = dst
	}
	js, _ := json.MarshalIndent(map[string]any{"Replace": ov}, "", " ")
	p := filepath.Join(outDir, "rt.json")
	return p, os.WriteFile(p, js, 0o644)
}
