package main

// simbuild: copies /repo's working tree to a scratch directory, applies the
// simulator rewrite (R1..R5), drops the //go:build verif overlay files in, and
// (mode rt) generates the deterministic-runtime overlay.
//
//	simbuild tree -repo /repo -out <scratch> -overlay /verif/overlay
//	simbuild rt -goroot <GOROOT> -out <dir>
//
// exit 2 on any infrastructure problem (missing anchor, rule matched too few sites).

import (
	"flag"
	"fmt"
	"io"
	"io/fs"
	"os"
	"path/filepath"
	"strings"
)

func die(format string, a ...any) {
	fmt.Fprintf(os.Stderr, "simbuild: "+format+"\n", a...)
	os.Exit(2)
}

func copyFile(src, dst string) error {
	if err := os.MkdirAll(filepath.Dir(dst), 0o755); err != nil {
		return err
	}
	in, err := os.Open(src)
	if err != nil {
		return err
	}
	defer in.Close()
	out, err := os.Create(dst)
	if err != nil {
		return err
	}
	defer out.Close()
	_, err = io.Copy(out, in)
	return err
}

var skipDirs = map[string]bool{".git": true, "docs": true, "scripts": true, "conf": true, "metrics": true, "tests": true, "tools": true, "plugin": true, "cmd": true}

func copyTree(repo, out string) error {
	return filepath.WalkDir(repo, func(p string, d fs.DirEntry, err error) error {
		if err != nil {
			return err
		}
		rel, _ := filepath.Rel(repo, p)
		if d.IsDir() {
			if rel != "." && strings.Count(rel, string(filepath.Separator)) == 0 && skipDirs[rel] {
				return filepath.SkipDir
			}
			return nil
		}
		name := d.Name()
		if rel == "go.mod" || rel == "go.sum" || (strings.HasSuffix(name, ".go") && !strings.HasSuffix(name, "_test.go")) {
			if rel == "tools.go" {
				return nil
			}
			return copyFile(p, filepath.Join(out, rel))
		}
		return nil
	})
}

func rewriteTree(out string) *stats {
	st := &stats{}
	for _, top := range []string{"server", "pkg", "client"} {
		root := filepath.Join(out, top)
		err := filepath.WalkDir(root, func(p string, d fs.DirEntry, err error) error {
			if err != nil {
				return err
			}
			if d.IsDir() || !strings.HasSuffix(p, ".go") {
				return nil
			}
			rel, _ := filepath.Rel(out, p)
			rel = filepath.ToSlash(rel)
			if strings.HasPrefix(rel, "pkg/mock") || strings.HasPrefix(rel, "pkg/testutil") || strings.HasPrefix(rel, "pkg/dashboard") || strings.HasPrefix(rel, "server/api") {
				return nil
			}
			return rewriteFile(p, rel, st)
		})
		if err != nil {
			die("rewrite: %v", err)
		}
	}
	return st
}

func main() {
	if len(os.Args) < 2 {
		die("usage: simbuild tree|rt ...")
	}
	switch os.Args[1] {
	case "rt":
		fl := flag.NewFlagSet("rt", flag.ExitOnError)
		goroot := fl.String("goroot", "", "")
		out := fl.String("out", "", "")
		fl.Parse(os.Args[2:])
		if err := os.MkdirAll(*out, 0o755); err != nil {
			die("%v", err)
		}
		p, err := genRuntimeOverlay(*goroot, *out)
		if err != nil {
			die("%v", err)
		}
		fmt.Println(p)
	case "tree":
		fl := flag.NewFlagSet("tree", flag.ExitOnError)
		repo := fl.String("repo", "/repo", "")
		out := fl.String("out", "", "")
		ov := fl.String("overlay", "", "")
		fl.Parse(os.Args[2:])
		if *out == "" {
			die("missing -out")
		}
		if err := copyTree(*repo, *out); err != nil {
			die("copy: %v", err)
		}
		st := rewriteTree(*out)
		if *ov != "" {
			err := filepath.WalkDir(*ov, func(p string, d fs.DirEntry, err error) error {
				if err != nil || d.IsDir() {
					return err
				}
				rel, _ := filepath.Rel(*ov, p)
				return copyFile(p, filepath.Join(*out, rel))
			})
			if err != nil {
				die("overlay: %v", err)
			}
		}
		fmt.Printf("simbuild: sync-imports=%d go-stmts=%d resumes=%d ctors=%d wallnow=%d etcd-leader=%d range-chan=%d disk-writes=%d\n",
			st.syncImports, st.goStmts, st.resumes, st.ctors, st.wallNow, st.etcdLeader, st.rangeChan, st.diskWrites)
		for _, u := range st.unhandled {
			fmt.Println("simbuild: UNHANDLED", u)
		}
		// every rule must still match (a refactor that silently removes a seam is an infrastructure error)
		if st.syncImports < 30 || st.goStmts < 30 || st.resumes < 60 || st.ctors < 8 || st.wallNow < 4 || st.etcdLeader != 1 || st.rangeChan < 2 || st.diskWrites != 3 || len(st.unhandled) > 0 {
			die("a rewrite rule matched fewer sites than expected")
		}
	default:
		die("unknown mode %s", os.Args[1])
	}
}
