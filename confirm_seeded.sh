#!/bin/bash
# confirm_seeded.sh <dir with patch.diff, *_demo_test.go, README.txt>: in a scratch worktree of /repo, runs the
# demonstration without the patch (must pass) and with it (must fail). Prints CONFIRMED / NOT-CONFIRMED.
set -u
export GOFLAGS=-mod=mod GOPROXY=off GOSUMDB=off GOTOOLCHAIN=local
D=$(readlink -f "$1")
CMD=$(grep -h "go test" "$D"/README.txt | grep -- "-run" | head -1 | sed 's/^[^g]*go test/go test/; s/[`]*$//')
PKG=$(echo "$CMD" | grep -o '\./[a-z_/]*[a-z_]' | head -1)/
[ -n "$CMD" ] && [ -n "$PKG" ] || { echo "NOT-CONFIRMED $D (no command found)"; exit 0; }
WT=$(mktemp -d /tmp/pdconf-XXXXXX)
git -C /repo worktree add -q --detach "$WT" HEAD || exit 2
trap 'git -C /repo worktree remove --force "$WT" 2>/dev/null; rm -rf "$WT"' EXIT
cp "$D"/*_demo_test.go "$WT/$PKG"
( cd "$WT" && eval "$CMD" ) > "$WT/without.txt" 2>&1; R0=$?
git -C "$WT" apply "$D/patch.diff" || { echo "NOT-CONFIRMED $D (patch does not apply)"; exit 0; }
( cd "$WT" && eval "$CMD" ) > "$WT/with.txt" 2>&1; R1=$?
if [ $R0 -eq 0 ] && [ $R1 -ne 0 ] && grep -q -- "--- FAIL\|^FAIL" "$WT/with.txt"; then echo "CONFIRMED $D"; else echo "NOT-CONFIRMED $D (without=$R0 with=$R1)"; tail -5 "$WT/without.txt"; tail -5 "$WT/with.txt"; fi
