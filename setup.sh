#!/bin/bash
# Offline set-up: build the rewriter, generate the runtime overlay and warm the Go build cache by building the engine once.
set -u
cd /verif
S=$(mktemp -d "${TMPDIR:-/tmp}/pdsim-setup-XXXXXX") || exit 2
trap 'rm -rf "$S"' EXIT
./build.sh "$S" ./engine/pdsim "$S/pdsim" || exit 2
echo "setup ok"
