// Package core is the search driver shared by every property profile: seeded
// runs in worker processes, violation confirmation by fresh-process replay,
// tape minimisation, replay files, known-findings matching and evidence output.
package core

import (
	"encoding/json"
	"fmt"
	"hash/fnv"
	"os"
	"os/exec"
	"path/filepath"
	"runtime"
	"sort"
	"strconv"
	"strings"
	"sync"
	"sync/atomic"
	"time"

	"pdsim/simrt"
)

// Violation is one oracle failure.
type Violation struct {
	Oracle  string `json:"oracle"`
	Class   string `json:"class"`
	Message string `json:"message"`
	Step    int    `json:"step"`
}

// RunCtx is handed to a profile for one run.
type RunCtx struct {
	S      *simrt.Sim
	Tier   string
	Knobs  map[string]any
	Viol   []Violation
	Sample []string // compact description of what the run did (for evidence samples)
	// Nontrivial is set by the profile when the run exercised something (a fault fired, two ops overlapped...)
	Nontrivial bool
	// AbstractState: a per-property abstraction of what was reached (for distinct-state counting)
	States map[string]bool
	Run    int    // run index
	Mode   string // profile-defined sub-mode (e.g. "faultfree", "faults", "enum")
	Extra  map[string]int
	Anoms  []string
}

// Violate records a violation and stops the run.
func (rc *RunCtx) Violate(oracle, class, format string, a ...any) {
	v := Violation{Oracle: oracle, Class: class, Message: fmt.Sprintf(format, a...), Step: rc.S.Step}
	if len(rc.Viol) == 0 {
		rc.S.Event("VIOLATION %s/%s: %s", oracle, class, v.Message)
	}
	rc.Viol = append(rc.Viol, v)
	rc.S.Stop("violation")
}

// Anomaly records something noteworthy that is not a violation of the property as stated
// (e.g. a liveness failure for a pure safety property); it is reported in the evidence.
func (rc *RunCtx) Anomaly(format string, a ...any) {
	rc.Anoms = append(rc.Anoms, fmt.Sprintf(format, a...))
	rc.S.Event("ANOMALY %s", fmt.Sprintf(format, a...))
}

// Note appends to the run's compact sample description.
func (rc *RunCtx) Note(format string, a ...any) {
	if len(rc.Sample) < 60 {
		rc.Sample = append(rc.Sample, fmt.Sprintf(format, a...))
	}
}

// State records an abstract state reached.
func (rc *RunCtx) State(s string) {
	if rc.States == nil {
		rc.States = map[string]bool{}
	}
	rc.States[s] = true
}

// Knob draws a per-run configuration choice from the tape and records it.
func (rc *RunCtx) Knob(name string, n int) int {
	v := rc.S.Choose(n, "knob."+name)
	rc.Knobs[name] = v
	return v
}

// KnobF picks one of the given float values.
func (rc *RunCtx) KnobF(name string, vals ...float64) float64 {
	v := vals[rc.S.Choose(len(vals), "knob."+name)]
	rc.Knobs[name] = v
	return v
}

// KnobD picks one of the given durations.
func (rc *RunCtx) KnobD(name string, vals ...time.Duration) time.Duration {
	v := vals[rc.S.Choose(len(vals), "knob."+name)]
	rc.Knobs[name] = v.String()
	return v
}

// Profile is a property check: workload + faults + oracles.
type Profile struct {
	Property string
	Level    string // exploration | fault_enumeration
	// Modes lists sub-profiles; run i uses Modes[i % len(Modes)].
	Modes []string
	// Body runs as the main task of a run.
	Body func(rc *RunCtx)
	// MaxSteps / MaxTime bound a run.
	MaxSteps int
	MaxTime  time.Duration
	// Budgets: wall-clock search budget per tier.
	QuickBudget, ThoroughBudget   time.Duration
	QuickMaxRuns, ThoroughMaxRuns int
	Rule                          string
	Assumptions                   []string
	Real, Stub                    []string
	// SeedOf maps a run index to the index its seed is derived from.
	SeedOf func(run int) int
}

var profiles = map[string]*Profile{}

// Register adds a profile.
func Register(p *Profile) { profiles[p.Property] = p }

// ---------------------------------------------------------------- one run

// RunOut is the outcome of one run.
type RunOut struct {
	Seed    uint64         `json:"seed"`
	Run     int            `json:"run"`
	Mode    string         `json:"mode"`
	Steps   int            `json:"steps"`
	SimTime float64        `json:"sim_time_s"`
	Digest  string         `json:"digest"`
	ILHash  uint64         `json:"il_hash"`
	Stop    string         `json:"stop"`
	Stats   map[string]int `json:"stats"`
	Knobs   map[string]any `json:"knobs"`
	Viol    []Violation    `json:"violations"`
	Tape    []uint32       `json:"tape,omitempty"`
	Sample  []string       `json:"sample,omitempty"`
	Trace   []string       `json:"trace,omitempty"`
	Anoms   []string       `json:"anomalies,omitempty"`
	Nontriv bool           `json:"nontrivial"`
	States  []string       `json:"states,omitempty"`
	Extra   map[string]int `json:"extra,omitempty"`
}

func runSeed(base uint64, prop string, run int) uint64 {
	h := fnv.New64a()
	fmt.Fprintf(h, "%d/%s/%d", base, prop, run)
	return h.Sum64()
}

// ExecRun executes one run of the profile. tape != nil replays.
// runWatchdog aborts the process when a single run makes no progress in real time (a task spinning without
// reaching a seam): infrastructure failure, never a violation.
var runStarted atomic.Int64
var watchdogOnce sync.Once

func startRunWatchdog() {
	watchdogOnce.Do(func() {
		go func() {
			for {
				time.Sleep(5 * time.Second)
				if t := runStarted.Load(); t != 0 && time.Since(time.Unix(0, t)) > time.Duration(envInt("VERIF_RUN_WATCHDOG_S", 150))*time.Second {
					buf := make([]byte, 4<<20)
					buf = buf[:runtime.Stack(buf, true)]
					fmt.Fprintf(os.Stderr, "pdsim: WATCHDOG: a run made no progress for too long; goroutines:\n%s\n", buf)
					os.Exit(2)
				}
			}
		}()
	})
}

func ExecRun(p *Profile, tier string, base uint64, run int, tape []uint32, trace bool) RunOut {
	startRunWatchdog()
	runStarted.Store(time.Now().UnixNano())
	defer runStarted.Store(0)
	sr := run
	if p.SeedOf != nil {
		sr = p.SeedOf(run)
	}
	seed := runSeed(base, p.Property, sr)
	mode := ""
	if len(p.Modes) > 0 {
		mode = p.Modes[run%len(p.Modes)]
	}
	rc := &RunCtx{Tier: tier, Run: run, Knobs: map[string]any{}, Mode: mode, Extra: map[string]int{}}
	cfg := simrt.Config{Seed: seed, Tape: tape, MaxSteps: p.MaxSteps, MaxTime: p.MaxTime, Trace: trace}
	res := simrt.Run(cfg, func(s *simrt.Sim) {
		rc.S = s
		p.Body(rc)
		s.Stop("body-done")
	})
	out := RunOut{Seed: base, Run: run, Mode: mode, Steps: res.Steps, SimTime: res.SimTime.Seconds(), Digest: fmt.Sprintf("%016x", res.Digest),
		ILHash: res.ILHash, Stop: res.StopReason, Stats: res.Stats, Knobs: rc.Knobs, Viol: rc.Viol, Tape: res.Tape, Sample: rc.Sample,
		Trace: res.Trace, Anoms: append(res.Anomalies, rc.Anoms...), Nontriv: rc.Nontrivial, Extra: rc.Extra}
	for st := range rc.States {
		out.States = append(out.States, st)
	}
	sort.Strings(out.States)
	return out
}

// ---------------------------------------------------------------- known findings

// Finding is an entry of known_findings.json.
type Finding struct {
	Property string `json:"property"`
	Status   string `json:"status"` // known | fixed
	Oracle   string `json:"oracle"`
	Class    string `json:"class"`
	// Match: substring that must appear in the violation message (identifies the specific call site / history shape)
	Match  string `json:"match"`
	What   string `json:"what"`
	Commit string `json:"commit,omitempty"`
}

func loadFindings(path string) []Finding {
	b, err := os.ReadFile(path)
	if err != nil {
		return nil
	}
	var f struct {
		Findings []Finding `json:"findings"`
	}
	if err := json.Unmarshal(b, &f); err != nil {
		fmt.Fprintf(os.Stderr, "known_findings.json: %v\n", err)
		os.Exit(2)
	}
	return f.Findings
}

func matchFinding(fs []Finding, prop string, v Violation) *Finding {
	for i := range fs {
		f := &fs[i]
		if f.Status == "known" && f.Property == prop && f.Oracle == v.Oracle && f.Class == v.Class && strings.Contains(v.Message, f.Match) {
			return f
		}
	}
	return nil
}

// ---------------------------------------------------------------- worker

type workerOut struct {
	Runs        int            `json:"runs"`
	Steps       int            `json:"steps"`
	SimTime     float64        `json:"sim_time_s"`
	Stats       map[string]int `json:"stats"`
	Hashes      []uint64       `json:"hashes"`
	NontrivKeys []uint64       `json:"nontriv_keys"`
	States      []string       `json:"states"`
	Samples     []RunOut       `json:"samples"`
	Violation   *RunOut        `json:"violation,omitempty"`
	Known       map[string]int `json:"known"`
	KnownRuns   []RunOut       `json:"known_runs,omitempty"`
	Stops       map[string]int `json:"stops"`
	Anomalies   map[string]int `json:"anomalies"`
	AnomSample  []string       `json:"anomaly_samples"`
	ModeRuns    map[string]int `json:"mode_runs"`
	WallS       float64        `json:"wall_s"`
	Extra       map[string]int `json:"extra"`
	// NextRun >= 0: the worker stopped early to give its memory back (goroutines of finished bubbles are never
	// collected); the parent starts a fresh process for this slot at that run index
	NextRun int `json:"next_run"`
}

func workerMain(p *Profile, tier string, base uint64, widx, wcount int, deadline time.Time, maxRuns int, outPath string, findings []Finding, firstRun int) {
	wo := workerOut{NextRun: -1, Stats: map[string]int{}, Known: map[string]int{}, Stops: map[string]int{}, Anomalies: map[string]int{}, ModeRuns: map[string]int{}, Extra: map[string]int{}}
	hashes := map[uint64]bool{}
	nontriv := map[uint64]bool{}
	states := map[string]bool{}
	start := time.Now()
	var curRun atomic.Int64
	var lastDone atomic.Int64
	lastDone.Store(time.Now().UnixNano())
	go func() {
		// real-time watchdog (outside any bubble): a run that makes no progress is an infrastructure failure
		for {
			time.Sleep(5 * time.Second)
			if time.Since(time.Unix(0, lastDone.Load())) > time.Duration(envInt("VERIF_RUN_WATCHDOG_S", 150))*time.Second {
				buf := make([]byte, 8<<20)
				buf = buf[:runtime.Stack(buf, true)]
				fmt.Fprintf(os.Stderr, "pdsim: WATCHDOG: property=%s seed=%d run=%d made no progress; goroutines:\n%s\n", p.Property, base, curRun.Load(), buf)
				os.Exit(2)
			}
		}
	}()
	if firstRun < widx {
		firstRun = widx
	}
	memLimit := uint64(envInt("VERIF_WORKER_MEM_MB", 1536)) << 20
	genLimit := time.Duration(envInt("VERIF_WORKER_GEN_S", 240)) * time.Second
	for run := firstRun; run < maxRuns; run += wcount {
		if time.Now().After(deadline) {
			break
		}
		if run != firstRun && wo.Runs%8 == 0 {
			var ms runtime.MemStats
			runtime.ReadMemStats(&ms)
			if ms.Sys > memLimit || time.Since(start) > genLimit {
				wo.NextRun = run
				break
			}
		}
		curRun.Store(int64(run))
		lastDone.Store(time.Now().UnixNano())
		o := ExecRun(p, tier, base, run, nil, false)
		wo.Runs++
		wo.Steps += o.Steps
		wo.SimTime += o.SimTime
		wo.Stops[o.Stop]++
		wo.ModeRuns[o.Mode]++
		for k, v := range o.Stats {
			wo.Stats[k] += v
		}
		for k, v := range o.Extra {
			wo.Extra[k] += v
		}
		hashes[o.ILHash] = true
		for _, st := range o.States {
			states[st] = true
		}
		if o.Nontriv {
			h := fnv.New64a()
			fmt.Fprintf(h, "%x|%v|%v", o.ILHash, o.Sample, o.Knobs)
			nontriv[h.Sum64()] = true
		}
		for _, a := range o.Anoms {
			first := a
			if i := strings.Index(a, "\n"); i > 0 {
				first = a[:i]
			}
			wo.Anomalies[first]++
			if len(wo.AnomSample) < 3 {
				wo.AnomSample = append(wo.AnomSample, fmt.Sprintf("seed=%d run=%d: %s", base, run, a))
			}
		}
		if len(wo.Samples) < 2 && o.Nontriv {
			s := o
			s.Tape = nil
			wo.Samples = append(wo.Samples, s)
		}
		if len(o.Viol) > 0 {
			if f := matchFinding(findings, p.Property, o.Viol[0]); f != nil {
				wo.Known[f.What]++
				if len(wo.KnownRuns) < 1 {
					wo.KnownRuns = append(wo.KnownRuns, o)
				}
				continue
			}
			wo.Violation = &o
			break
		}
	}
	for h := range hashes {
		wo.Hashes = append(wo.Hashes, h)
	}
	for h := range nontriv {
		wo.NontrivKeys = append(wo.NontrivKeys, h)
	}
	for s := range states {
		wo.States = append(wo.States, s)
	}
	wo.WallS = time.Since(start).Seconds()
	b, _ := json.Marshal(wo)
	if err := os.WriteFile(outPath, b, 0o644); err != nil {
		fmt.Fprintln(os.Stderr, err)
		os.Exit(2)
	}
}

// ---------------------------------------------------------------- replay files

// ReplayFile is what a violation is reported as.
type ReplayFile struct {
	Property string         `json:"property"`
	Tier     string         `json:"tier"`
	Seed     uint64         `json:"seed"`
	Run      int            `json:"run"`
	Mode     string         `json:"mode"`
	Knobs    map[string]any `json:"knobs"`
	Tape     []uint32       `json:"tape"`
	Expect   struct {
		Oracle  string `json:"oracle"`
		Class   string `json:"class"`
		Message string `json:"message"`
		Digest  string `json:"log_digest"`
	} `json:"expect"`
	OriginalTapeLen int      `json:"original_tape_len"`
	Trace           []string `json:"trace"`
}

func writeJSON(path string, v any) error {
	b, err := json.MarshalIndent(v, "", " ")
	if err != nil {
		return err
	}
	return os.WriteFile(path, b, 0o644)
}

func readReplay(path string) (*ReplayFile, error) {
	b, err := os.ReadFile(path)
	if err != nil {
		return nil, err
	}
	var rf ReplayFile
	if err := json.Unmarshal(b, &rf); err != nil {
		return nil, err
	}
	return &rf, nil
}

// sameViolation: same oracle and class (the "violation class" kept during minimisation).
func sameViolation(o RunOut, oracle, class string) bool {
	return len(o.Viol) > 0 && o.Viol[0].Oracle == oracle && o.Viol[0].Class == class
}

// shrink minimises the tape in-process: truncate, then ddmin-style zeroing and deletion of chunks.
func shrink(p *Profile, rf *ReplayFile, budget time.Duration, findings []Finding) []uint32 {
	deadline := time.Now().Add(budget)
	best := append([]uint32(nil), rf.Tape...)
	try := func(t []uint32) bool {
		if time.Now().After(deadline) {
			return false
		}
		o := ExecRun(p, rf.Tier, rf.Seed, rf.Run, t, false)
		// keep the violation class, and never let the minimised run drift into a listed known finding
		return sameViolation(o, rf.Expect.Oracle, rf.Expect.Class) && matchFinding(findings, p.Property, o.Viol[0]) == nil
	}
	// 1. truncate the tail (exhausted tape reads 0 = benign)
	lo, hi := 0, len(best)
	for lo < hi {
		mid := (lo + hi) / 2
		if try(best[:mid]) {
			hi = mid
		} else {
			lo = mid + 1
		}
	}
	if hi < len(best) && try(best[:hi]) {
		best = append([]uint32(nil), best[:hi]...)
	}
	// 2. zero chunks (ddmin over the set of non-zero entries)
	for chunk := len(best) / 2; chunk >= 1; chunk /= 2 {
		for i := 0; i+chunk <= len(best); i += chunk {
			allZero := true
			for _, v := range best[i : i+chunk] {
				if v != 0 {
					allZero = false
					break
				}
			}
			if allZero {
				continue
			}
			cand := append([]uint32(nil), best...)
			for j := i; j < i+chunk; j++ {
				cand[j] = 0
			}
			if try(cand) {
				best = cand
			}
			if time.Now().After(deadline) {
				break
			}
		}
	}
	// 3. delete chunks
	for chunk := len(best) / 2; chunk >= 1; chunk /= 2 {
		for i := 0; i+chunk <= len(best); {
			cand := append(append([]uint32(nil), best[:i]...), best[i+chunk:]...)
			if try(cand) {
				best = cand
			} else {
				i += chunk
			}
			if time.Now().After(deadline) {
				break
			}
		}
	}
	// 4. strip trailing zeros
	for len(best) > 0 && best[len(best)-1] == 0 {
		best = best[:len(best)-1]
	}
	return best
}

// ---------------------------------------------------------------- main

func die2(format string, a ...any) {
	fmt.Fprintf(os.Stderr, "pdsim: "+format+"\n", a...)
	os.Exit(2)
}

func envInt(name string, def int) int {
	if v := os.Getenv(name); v != "" {
		if n, err := strconv.Atoi(v); err == nil {
			return n
		}
	}
	return def
}

// Main is the entry point of the engine binary.
//
//	pdsim check <prop> <tier>          search (spawns workers), writes evidence, prints VIOLATION/KNOWN-FINDING lines
//	pdsim worker ...                   internal
//	pdsim replay <file>                re-executes a replay file; exit 1 if the violation reproduces
//	pdsim shrink <in> <out>            internal: minimise
//	pdsim run <prop> <tier> <seed> <run> [trace]   one run, printed
//	pdsim digests <prop> <tier> <seed> <from> <to> determinism self-test helper
func Main() {
	if len(os.Args) < 2 {
		die2("usage")
	}
	verif := os.Getenv("VERIF_DIR")
	if verif == "" {
		verif = "/verif"
	}
	switch os.Args[1] {
	case "worker":
		// worker <prop> <tier> <seed> <widx> <wcount> <deadline-unix-ms> <maxruns> <out>
		p := profiles[os.Args[2]]
		base, _ := strconv.ParseUint(os.Args[4], 10, 64)
		widx, _ := strconv.Atoi(os.Args[5])
		wcount, _ := strconv.Atoi(os.Args[6])
		dl, _ := strconv.ParseInt(os.Args[7], 10, 64)
		maxRuns, _ := strconv.Atoi(os.Args[8])
		firstRun := 0
		if len(os.Args) > 10 {
			firstRun, _ = strconv.Atoi(os.Args[10])
		}
		workerMain(p, os.Args[3], base, widx, wcount, time.UnixMilli(dl), maxRuns, os.Args[9], loadFindings(filepath.Join(verif, "known_findings.json")), firstRun)
	case "run":
		p := profiles[os.Args[2]]
		if p == nil {
			die2("unknown property %s", os.Args[2])
		}
		base, _ := strconv.ParseUint(os.Args[4], 10, 64)
		run, _ := strconv.Atoi(os.Args[5])
		o := ExecRun(p, os.Args[3], base, run, nil, len(os.Args) > 6)
		o.Tape = nil
		b, _ := json.MarshalIndent(o, "", " ")
		fmt.Println(string(b))
	case "digests":
		p := profiles[os.Args[2]]
		base, _ := strconv.ParseUint(os.Args[4], 10, 64)
		from, _ := strconv.Atoi(os.Args[5])
		to, _ := strconv.Atoi(os.Args[6])
		for r := from; r < to; r++ {
			o := ExecRun(p, os.Args[3], base, r, nil, false)
			fmt.Printf("%d %s %d %d %v\n", r, o.Digest, o.Steps, len(o.Tape), len(o.Viol))
		}
	case "replay":
		rf, err := readReplay(os.Args[2])
		if err != nil {
			die2("%v", err)
		}
		p := profiles[rf.Property]
		if p == nil {
			die2("unknown property %s", rf.Property)
		}
		o := ExecRun(p, rf.Tier, rf.Seed, rf.Run, rf.Tape, true)
		quiet := len(os.Args) > 3 && os.Args[3] == "-q"
		if !quiet {
			for _, l := range o.Trace {
				fmt.Println(l)
			}
		}
		if sameViolation(o, rf.Expect.Oracle, rf.Expect.Class) {
			fmt.Printf("REPRODUCED property=%s oracle=%s class=%s digest=%s\n  %s\n", rf.Property, o.Viol[0].Oracle, o.Viol[0].Class, o.Digest, o.Viol[0].Message)
			if rf.Expect.Digest != "" && rf.Expect.Digest != o.Digest {
				fmt.Printf("DIGEST-MISMATCH expected=%s got=%s\n", rf.Expect.Digest, o.Digest)
				os.Exit(3)
			}
			os.Exit(1)
		}
		fmt.Printf("NOT-REPRODUCED property=%s (violations: %v)\n", rf.Property, o.Viol)
		os.Exit(0)
	case "shrink":
		rf, err := readReplay(os.Args[2])
		if err != nil {
			die2("%v", err)
		}
		p := profiles[rf.Property]
		rf.OriginalTapeLen = len(rf.Tape)
		rf.Tape = shrink(p, rf, time.Duration(envInt("VERIF_SHRINK_S", 45))*time.Second, loadFindings(filepath.Join(verif, "known_findings.json")))
		o := ExecRun(p, rf.Tier, rf.Seed, rf.Run, rf.Tape, true)
		if !sameViolation(o, rf.Expect.Oracle, rf.Expect.Class) {
			die2("shrunk tape does not reproduce")
		}
		rf.Expect.Message = o.Viol[0].Message
		rf.Expect.Digest = o.Digest
		rf.Trace = o.Trace
		if len(rf.Trace) > 400 {
			rf.Trace = append([]string{fmt.Sprintf("... %d earlier events omitted ...", len(rf.Trace)-400)}, rf.Trace[len(rf.Trace)-400:]...)
		}
		rf.Knobs = o.Knobs
		if err := writeJSON(os.Args[3], rf); err != nil {
			die2("%v", err)
		}
	case "check":
		checkMain(verif, os.Args[2], os.Args[3])
	default:
		die2("unknown command %s", os.Args[1])
	}
}

func self() string {
	e, err := os.Executable()
	if err != nil {
		die2("%v", err)
	}
	return e
}

func checkMain(verif, prop, tier string) {
	p := profiles[prop]
	if p == nil {
		die2("unknown property %s", prop)
	}
	start := time.Now()
	base := uint64(envInt("VERIF_SEED", 1))
	budget, maxRuns := p.QuickBudget, p.QuickMaxRuns
	if tier == "thorough" {
		budget, maxRuns = p.ThoroughBudget, p.ThoroughMaxRuns
	}
	if v := envInt("VERIF_BUDGET_S", 0); v > 0 {
		budget = time.Duration(v) * time.Second
	}
	if maxRuns == 0 {
		maxRuns = 1 << 30
	}
	if v := envInt("VERIF_MAX_RUNS", 0); v > 0 {
		maxRuns = v
	}
	W := envInt("VERIF_WORKERS", 16)
	tmp := filepath.Join(os.TempDir(), fmt.Sprintf("pdsim-run-%d-%d", os.Getpid(), time.Now().UnixNano()))
	err := os.MkdirAll(tmp, 0o755)
	if err != nil {
		die2("%v", err)
	}
	defer os.RemoveAll(tmp)
	deadline := time.Now().Add(budget)
	// one slot per worker; a slot is served by successive processes ("generations"): a worker stops early when its
	// memory has grown (goroutines left behind by finished bubbles are never collected) and a fresh one continues
	var mu sync.Mutex
	var outs []string
	live := map[*exec.Cmd]bool{}
	failed := false
	var wg sync.WaitGroup
	for i := 0; i < W; i++ {
		wg.Add(1)
		go func(i int) {
			defer wg.Done()
			first := i
			for gen := 0; ; gen++ {
				out := filepath.Join(tmp, fmt.Sprintf("w%d.g%d.json", i, gen))
				c := exec.Command(self(), "worker", prop, tier, strconv.FormatUint(base, 10), strconv.Itoa(i), strconv.Itoa(W),
					strconv.FormatInt(deadline.UnixMilli(), 10), strconv.Itoa(maxRuns), out, strconv.Itoa(first))
				c.Env = append(os.Environ(), "GOMAXPROCS=2", "GODEBUG=randseednop=0")
				c.Stderr = os.Stderr
				if err := c.Start(); err != nil {
					die2("%v", err)
				}
				mu.Lock()
				live[c] = true
				mu.Unlock()
				err := c.Wait()
				mu.Lock()
				delete(live, c)
				if err != nil {
					fmt.Fprintf(os.Stderr, "pdsim: worker failed: %v\n", err)
					failed = true
					mu.Unlock()
					return
				}
				outs = append(outs, out)
				mu.Unlock()
				b, rerr := os.ReadFile(out)
				var wo workerOut
				if rerr != nil || json.Unmarshal(b, &wo) != nil {
					mu.Lock()
					failed = true
					mu.Unlock()
					return
				}
				if wo.NextRun < 0 || wo.Violation != nil || time.Now().After(deadline) {
					return
				}
				first = wo.NextRun
			}
		}(i)
	}
	// watchdog: workers that overrun the budget by a wide margin are an infrastructure failure
	timer := time.AfterFunc(budget+5*time.Minute, func() {
		mu.Lock()
		for c := range live {
			c.Process.Kill()
		}
		mu.Unlock()
	})
	wg.Wait()
	timer.Stop()
	if failed {
		os.Exit(2)
	}
	sort.Strings(outs)
	agg := workerOut{Stats: map[string]int{}, Known: map[string]int{}, Stops: map[string]int{}, Anomalies: map[string]int{}, ModeRuns: map[string]int{}, Extra: map[string]int{}}
	hashes := map[uint64]bool{}
	nontriv := map[uint64]bool{}
	states := map[string]bool{}
	var viols []*RunOut
	for _, of := range outs {
		b, err := os.ReadFile(of)
		if err != nil {
			die2("%v", err)
		}
		var wo workerOut
		if err := json.Unmarshal(b, &wo); err != nil {
			die2("%v", err)
		}
		agg.Runs += wo.Runs
		agg.Steps += wo.Steps
		agg.SimTime += wo.SimTime
		for k, v := range wo.Stats {
			agg.Stats[k] += v
		}
		for k, v := range wo.Known {
			agg.Known[k] += v
		}
		for k, v := range wo.Stops {
			agg.Stops[k] += v
		}
		for k, v := range wo.Anomalies {
			agg.Anomalies[k] += v
		}
		for k, v := range wo.ModeRuns {
			agg.ModeRuns[k] += v
		}
		for k, v := range wo.Extra {
			agg.Extra[k] += v
		}
		for _, h := range wo.Hashes {
			hashes[h] = true
		}
		for _, h := range wo.NontrivKeys {
			nontriv[h] = true
		}
		for _, s := range wo.States {
			states[s] = true
		}
		if len(agg.Samples) < 3 {
			agg.Samples = append(agg.Samples, wo.Samples...)
		}
		if len(agg.AnomSample) < 3 {
			agg.AnomSample = append(agg.AnomSample, wo.AnomSample...)
		}
		if len(agg.KnownRuns) < 1 {
			agg.KnownRuns = append(agg.KnownRuns, wo.KnownRuns...)
		}
		if wo.Violation != nil {
			viols = append(viols, wo.Violation)
		}
	}
	sort.Slice(viols, func(i, j int) bool { return viols[i].Run < viols[j].Run })
	exit := 0
	var violLines []string
	nviol := 0
	if len(viols) > 0 {
		v := viols[0]
		nviol = len(viols)
		repDir := filepath.Join(verif, "replays")
		if d := os.Getenv("VERIF_REPLAY_DIR"); d != "" {
			repDir = d
		}
		os.MkdirAll(repDir, 0o755)
		raw := filepath.Join(tmp, "raw.json")
		rf := &ReplayFile{Property: prop, Tier: tier, Seed: v.Seed, Run: v.Run, Mode: v.Mode, Knobs: v.Knobs, Tape: v.Tape}
		rf.Expect.Oracle, rf.Expect.Class, rf.Expect.Message, rf.Expect.Digest = v.Viol[0].Oracle, v.Viol[0].Class, v.Viol[0].Message, v.Digest
		writeJSON(raw, rf)
		// (a) confirm exact reproduction in a fresh process
		c := exec.Command(self(), "replay", raw, "-q")
		c.Env = append(os.Environ(), "GOMAXPROCS=2", "GODEBUG=randseednop=0")
		outb, _ := c.CombinedOutput()
		if c.ProcessState.ExitCode() != 1 {
			fmt.Printf("pdsim: violation found by a worker did not replay identically in a fresh process (determinism problem), output:\n%s\n", outb)
			os.Exit(2)
		}
		// (b) minimise
		final := filepath.Join(repDir, fmt.Sprintf("%s-%d-%d.json", prop, v.Seed, v.Run))
		c = exec.Command(self(), "shrink", raw, final)
		c.Env = append(os.Environ(), "GOMAXPROCS=2", "GODEBUG=randseednop=0")
		c.Stderr = os.Stderr
		if err := c.Run(); err != nil {
			// fall back to the raw tape
			rf.Trace = nil
			writeJSON(final, rf)
		}
		// (c) replay the minimised file in a fresh process
		c = exec.Command(self(), "replay", final, "-q")
		c.Env = append(os.Environ(), "GOMAXPROCS=2", "GODEBUG=randseednop=0")
		outb, _ = c.CombinedOutput()
		if c.ProcessState.ExitCode() != 1 {
			fmt.Printf("pdsim: minimised replay did not reproduce:\n%s\n", outb)
			os.Exit(2)
		}
		fmt.Printf("%s", outb)
		violLines = append(violLines, fmt.Sprintf("VIOLATION property=%s replay=%s", prop, final))
		exit = 1
	}
	for what, n := range agg.Known {
		fmt.Printf("KNOWN-FINDING: property=%s %s (seen in %d runs)\n", prop, what, n)
	}
	wall := time.Since(start).Seconds()
	writeEvidence(verif, p, tier, base, &agg, len(hashes), len(nontriv), len(states), wall, nviol)
	fmt.Printf("pdsim: property=%s tier=%s seed=%d runs=%d steps=%d sim_time=%.0fs distinct_interleavings=%d distinct_nontrivial=%d wall=%.1fs\n",
		prop, tier, base, agg.Runs, agg.Steps, agg.SimTime, len(hashes), len(nontriv), wall)
	for _, l := range violLines {
		fmt.Println(l)
	}
	os.Exit(exit)
}

func writeEvidence(verif string, p *Profile, tier string, base uint64, agg *workerOut, nHashes, nNontriv, nStates int, wall float64, nviol int) {
	faults := map[string]int{}
	probes := map[string]int{}
	for k, v := range agg.Stats {
		if strings.HasPrefix(k, "fault.") {
			faults[k] = v
		} else {
			probes[k] = v
		}
	}
	// the cluster worlds count their nemesis / foreign events among the workload counters: they are faults too
	for k, v := range agg.Extra {
		for _, pre := range []string{"nem_", "foreign_", "pd_restarts", "double_failures", "silent_regions", "cmd_ignored_deaf", "storage_faults", "lagging_new_leader_sent", "stale_or_duplicate_sent", "admin_races_checker_op"} {
			if strings.HasPrefix(k, pre) {
				faults["fault.world."+k] = v
			}
		}
	}
	var samples []any
	for _, s := range agg.Samples {
		samples = append(samples, map[string]any{"seed": s.Seed, "run": s.Run, "mode": s.Mode, "knobs": s.Knobs, "steps": s.Steps, "sim_time_s": s.SimTime,
			"faults_and_probes": s.Stats, "what_happened": s.Sample, "stop": s.Stop})
	}
	if len(samples) == 0 {
		samples = append(samples, "no non-trivial run in this batch")
	}
	runsPerHour := 0.0
	if wall > 0 {
		runsPerHour = float64(agg.Runs) / wall * 3600
	}
	ev := map[string]any{
		"property_id": p.Property,
		"tier":        tier,
		"seed":        base,
		"level":       p.Level,
		"wall_s":      wall,
		"violations":  nviol,
		"assumptions": append([]string{
			"etcd, gRPC transport, TiKV stores and the OS clock are simulator models (DESIGN.md §2.3); no clock-rate drift between nodes",
			"interleavings are explored at seams (etcd/storage calls, network sends/receives, lock acquisitions, blocking operations); code between two seams runs atomically",
			"a clean batch is evidence, not proof: seeded sampling of schedules and fault sequences",
		}, p.Assumptions...),
		"coverage": map[string]any{
			"evaluations":            agg.Runs,
			"distinct_nontrivial":    nNontriv,
			"rule":                   p.Rule,
			"samples":                samples,
			"states":                 nStates,
			"distinct_interleavings": nHashes,
			"scheduler_steps":        agg.Steps,
			"simulated_time_s":       agg.SimTime,
			"runs_per_hour":          runsPerHour,
			"faults_fired":           faults,
			"probes":                 probes,
			"run_end_reasons":        agg.Stops,
			"runs_per_mode":          agg.ModeRuns,
			"anomalies":              agg.Anomalies,
			"anomaly_samples":        agg.AnomSample,
			"known_findings_seen":    agg.Known,
			"real_components":        p.Real,
			"stub_components":        p.Stub,
			"extra":                  agg.Extra,
		},
	}
	evDir := filepath.Join(verif, "evidence")
	if d := os.Getenv("VERIF_EVIDENCE_DIR"); d != "" {
		evDir = d
	}
	os.MkdirAll(evDir, 0o755)
	if err := writeJSON(filepath.Join(evDir, p.Property+".json"), ev); err != nil {
		die2("%v", err)
	}
}
