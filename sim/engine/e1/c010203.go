package e1

import (
	"fmt"
	"time"

	"github.com/pingcap/kvproto/pkg/pdpb"

	"pdsim/engine/core"
	"pdsim/harness"
	"pdsim/simrt"
)

// leaseAliveDuring: did node own an etcd-side live lease on the leader key at some instant of [inv, ret]?
func (o *tsoOracle) leaseAliveDuring(node int, leaderKey string, inv, ret int) bool {
	for _, lo := range o.keyLease[leaderKey] {
		if lo.node == node && lo.from <= ret && (lo.to < 0 || lo.to >= inv) {
			return true
		}
	}
	return false
}

type tsoRunCfg struct {
	prop               string
	minNodes, maxNodes int
	faults             bool
	nemesis            []string
	bootSkew           bool
	resetTS            bool
	enumCrashAtCommit  int // >0: crash the issuing node right after its k-th commit while it is the recorded leader
	intruder           bool
	allocIDClients     bool
	staleTerm          bool // scripted nemesis: the leader is cut off from etcd across a term of another member
}

func runTSOWorld(rc *core.RunCtx, cfg tsoRunCfg, setup func(o *tsoOracle)) {
	s := rc.S
	e := Setup(rc, Opts{MinNodes: cfg.minNodes, MaxNodes: cfg.maxNodes, Faults: cfg.faults, TSOKnobs: cfg.prop == "c01" || cfg.prop == "c02"})
	e.trackMembers()
	o := newTSOOracle(rc, e)
	setup(o)
	if o.c02 {
		s.AddMonitor(o.monitorC02)
	}
	if cfg.bootSkew {
		skew := rc.KnobD("boot_skew", 0, 100*time.Millisecond, 5*time.Second, 3*time.Hour)
		for _, n := range e.W.Nodes {
			if skew > 0 {
				s.SetWallOffset(n.ID, time.Duration(s.Choose(2001, "skew")-1000)*skew/1000)
			}
		}
	}
	if cfg.enumCrashAtCommit > 0 {
		seen := 0
		crashed := false
		behind := rc.KnobD("takeover_clock_behind", 0, 10*time.Millisecond, 2*time.Second, time.Hour)
		e.W.Etcd.OnCommit = append(e.W.Etcd.OnCommit, func(c *simetcdCommit) {
			if crashed || c.Node < 0 || e.ClusterID == 0 {
				return
			}
			lk := e.W.Etcd.Get(e.LeaderKey())
			if lk == nil || string(lk.Value) != e.memberValue(c.Node) {
				return
			}
			seen++
			if seen == cfg.enumCrashAtCommit {
				crashed = true
				nd := e.W.Nodes[c.Node]
				s.Event("ENUM crash node %d right after its commit #%d (rev %d %s)", c.Node, seen, c.Rev, c.Changes[0].Key)
				rc.Note("enum: crash %s after leader commit #%d on %s", nd.Name, seen, c.Changes[0].Key)
				nd.Crash()
				// whoever takes over has a slower clock
				for _, other := range e.W.Nodes {
					s.SetWallOffset(other.ID, s.WallOffset(other.ID)-behind)
				}
				s.Spawn(-1, "enum-restart", func() {
					simrt.Sleep(500 * time.Millisecond)
					nd.Start()
				})
			}
		})
	}
	if !e.StartAll() {
		return
	}
	if e.WaitLeader(20*time.Second) == nil {
		if !cfg.faults {
			rc.Anomaly("liveness: no-leader-fault-free: " + "no leader elected within 20 s without faults")
		}
		return
	}
	if cfg.faults {
		e.StartNemesis(cfg.nemesis, 2500*time.Millisecond)
	}
	nClients := 2 + rc.Knob("clients", 5)
	nReq := 10 + rc.Knob("requests", 40)
	gap := rc.KnobD("client_gap", 0, 20*time.Millisecond, 400*time.Millisecond)
	running := 0
	if cfg.staleTerm {
		// the run lasts as long as the script; the clients spread their requests over it
		running++
		e.startStaleTermScript(&running)
		if gap < 400*time.Millisecond {
			gap = 400 * time.Millisecond
		}
		nReq += 40
	}
	for c := 0; c < nClients; c++ {
		running++
		e.tsoClient(fmt.Sprintf("tso-client-%d", c), o, tsoClientCfg{nReq: nReq, maxGap: gap, bigCount: c%2 == 1, pLeader: 0.75}, &running)
	}
	if cfg.resetTS {
		running++
		e.resetTSAdmin(o, 1+rc.Knob("resets", 5), &running)
	}
	if cfg.allocIDClients {
		running++
		s.Spawn(-1, "allocid-client", func() {
			defer func() { running-- }()
			for k := 0; k < nReq && len(rc.Viol) == 0; k++ {
				nd := e.W.Nodes[s.Choose(len(e.W.Nodes), "aid.node")]
				ctx, cancel := Ctx(2 * time.Second)
				inv := s.Step
				_, err := e.W.Net.Dial(nd.ClientURL).AllocID(ctx, &pdpb.AllocIDRequest{Header: &pdpb.RequestHeader{ClusterId: e.ClusterID}})
				cancel()
				if err == nil {
					rc.Extra["allocid_ok"]++
					if !o.leaseAliveDuring(nd.ID, e.LeaderKey(), inv, s.Step) {
						rc.Violate("c03.serve", "allocid-served-without-lease", "node %d answered AllocID (steps %d-%d) while it held no live leader lease", nd.ID, inv, s.Step)
					}
				} else {
					rc.Extra["allocid_refused"]++
				}
				simrt.Sleep(time.Duration(s.Choose(500, "aid.gap")) * time.Millisecond)
			}
		})
	}
	if cfg.intruder {
		running++
		e.intruder(o, 5+rc.Knob("intrusions", 20), &running)
	}
	for running > 0 && len(rc.Viol) == 0 {
		simrt.Sleep(100 * time.Millisecond)
	}
	if len(rc.Viol) > 0 {
		return
	}
	e.Quiesce()
	// bounded liveness once faults stop
	ok := false
	deadline := s.Elapsed() + 40*time.Second
	for s.Elapsed() < deadline && !ok && len(rc.Viol) == 0 {
		if l := e.W.Leader(); l != nil {
			ctx, cancel := Ctx(5 * time.Second)
			if st, err := e.W.Net.Dial(l.ClientURL).Tso(ctx); err == nil {
				inv := s.Step
				if st.Send(&pdpb.TsoRequest{Header: &pdpb.RequestHeader{ClusterId: e.ClusterID}, Count: 1}) == nil {
					if r, err := st.Recv(); err == nil {
						ts := r.GetTimestamp()
						o.observe(tsResp{alloc: "global", node: l.ID, phys: ts.GetPhysical(), logical: ts.GetLogical(), bits: ts.GetSuffixBits(), count: 1, inv: inv, ret: s.Step})
						ok = true
					}
				}
			}
			cancel()
		}
		simrt.Sleep(200 * time.Millisecond)
	}
	if !ok && len(rc.Viol) == 0 {
		rc.Anomaly("liveness: no-tso-after-quiesce: " + "no timestamp could be obtained within 40 s after faults stopped")
	}
	rc.Nontrivial = rc.Extra["tso_ok"] > 1 && (e.FaultsFired() || nClients > 1 || cfg.enumCrashAtCommit > 0)
	rc.Note("nodes=%d clients=%d tso_ok=%d tso_err=%d window_saves=%d campaigns=%d resets_ok=%d resets_rejected=%d crashes=%d nemesis=%v",
		len(e.W.Nodes), nClients, rc.Extra["tso_ok"], rc.Extra["tso_err"], rc.Extra["window_saves"], rc.Extra["campaign_ok"], rc.Extra["reset_ts_ok"], rc.Extra["reset_ts_rejected"], e.Crashes, e.NemKinds)
	rc.State(fmt.Sprintf("camp=%d saves=%d crash=%d rst=%d", min(rc.Extra["campaign_ok"], 6), min(rc.Extra["window_saves"]/4, 6), min(e.Crashes, 3), min(rc.Extra["reset_ts_ok"], 3)))
}

// intruder: guarded writes attempted by owners and non-owners at arbitrary points.
func (e *Env) intruder(o *tsoOracle, n int, done *int) {
	s, rc := e.S, e.RC
	s.Spawn(-1, "intruder", func() {
		defer func() { *done-- }()
		for k := 0; k < n && len(rc.Viol) == 0; k++ {
			simrt.Sleep(time.Duration(20+s.Choose(1500, "intr.gap")) * time.Millisecond)
			nd := e.W.Nodes[s.Choose(len(e.W.Nodes), "intr.node")]
			if !nd.Up || nd.Srv == nil {
				continue
			}
			srv := nd.Srv
			target := e.W.Nodes[s.Choose(len(e.W.Nodes), "intr.target")]
			tid := simetcdMemberID(target.ID)
			kind := s.Choose(5, "intr.kind")
			res := make(chan error, 1)
			s.Spawn(nd.ID, "intrusion", func() {
				switch kind {
				case 0:
					res <- srv.SimMember().SetMemberLeaderPriority(tid, s.Choose(10, "intr.prio"))
				case 1:
					res <- srv.SimMember().DeleteMemberLeaderPriority(tid)
				case 2:
					res <- srv.SimMember().DeleteMemberDCLocationInfo(tid)
				case 3:
					res <- srv.GetAllocator().Rebase()
				case 4:
					if a, err := srv.SimTSOManager().GetAllocator("global"); err == nil && a.IsInitialize() {
						res <- a.UpdateTSO()
					} else {
						res <- fmt.Errorf("not initialized")
					}
				}
			})
			var err error
			select {
			case err = <-res:
				simrt.Resume()
			case <-time.After(10 * time.Second):
				simrt.Resume()
				err = fmt.Errorf("timeout")
			}
			owner := o.leaderVal[e.LeaderKey()] == e.memberValue(nd.ID)
			if err == nil {
				rc.Extra["intrusion_ok"]++
			} else {
				rc.Extra["intrusion_rejected"]++
			}
			if !owner {
				rc.Extra["intrusion_by_non_owner"]++
			}
		}
	})
}

var _ = harness.NewWorld

func init() {
	// forced lease revocation and third-party deletion of the leader key are outside the fault model of the
	// TSO properties: an etcd lease only ends by expiry or by its owner revoking it (see DESIGN.md, false alarms)
	allNem := []string{"crash", "etcd-partition", "etcd-leader-move", "clock-jump", "watch-cancel", "net-cut", "resign"}
	core.Register(&core.Profile{
		Property: "C01", Level: "exploration",
		Modes: []string{"faults", "faultfree", "faults", "faults"},
		Body: func(rc *core.RunCtx) {
			runTSOWorld(rc, tsoRunCfg{prop: "c01", minNodes: 1, maxNodes: 3, faults: rc.Mode == "faults", nemesis: allNem, bootSkew: true, resetTS: true},
				func(o *tsoOracle) { o.c01 = true })
		},
		MaxSteps: 600000, MaxTime: 10 * time.Minute,
		QuickBudget: 60 * time.Second, ThoroughBudget: 15 * time.Minute,
		Rule: "one run = 1-3 real PD servers, 2-6 concurrent TSO stream clients (counts 1..2^18), manual reset-ts (accepted / too small / equal / too far), under a seeded schedule and nemesis (crash+restart, etcd partition with natural lease expiry, resign, etcd-leader move, wall-clock jumps up to hours, stalls, etcd errors); non-trivial = >1 timestamp granted and (a fault fired or clients overlapped); distinct = distinct (interleaving hash, summary, knobs)",
		Real: realE1, Stub: stubE1,
	})
	const enumM = 40
	core.Register(&core.Profile{
		Property: "C02", Level: "fault_enumeration",
		Modes: []string{"enum"},
		SeedOf: func(run int) int {
			if run%2 == 0 {
				return run / 2 / enumM
			}
			return 1<<20 + run
		},
		Body: func(rc *core.RunCtx) {
			cfg := tsoRunCfg{prop: "c02", minNodes: 1, maxNodes: 3, bootSkew: true, resetTS: true}
			if rc.Run%2 == 0 {
				rc.Mode = "enum"
				cfg.minNodes = 1
				cfg.enumCrashAtCommit = 1 + (rc.Run/2)%enumM
				rc.Knobs["crash_after_leader_commit"] = cfg.enumCrashAtCommit
			} else if rc.Run%8 == 3 {
				// requests of the leader stay in flight across a whole term of another member
				rc.Mode = "stale-term"
				cfg.minNodes, cfg.maxNodes = 2, 3
				cfg.staleTerm = true
			} else {
				rc.Mode = "faults"
				cfg.faults = true
				cfg.nemesis = allNem
			}
			runTSOWorld(rc, cfg, func(o *tsoOracle) { o.c02 = true; o.c01 = true })
		},
		MaxSteps: 600000, MaxTime: 10 * time.Minute,
		QuickBudget: 60 * time.Second, ThoroughBudget: 15 * time.Minute,
		Rule: "even runs (enum): groups of 40 runs share one seed, i.e. one operation history prefix; run k of a group crashes the serving leader immediately after its k-th storage commit (window saves, id window, member info, campaign), every other member's clock is set behind by a drawn offset, and a successor takes over; odd runs (faults): random nemesis incl. etcd errors before/after apply on the window save; every eighth run (stale-term): a scripted nemesis cuts the leader off from etcd (or pauses its process) across a whole term of a member with a faster clock, then lets it win again while its old requests are still being delivered. Oracles after every scheduler step: in-memory physical < stored window for every live allocator; on every commit: stored window never decreases; on every grant: physical < stored window; plus C01's uniqueness/order oracle across the crash. non-trivial = >1 timestamp granted and (fault fired or enum crash or overlapping clients)",
		Real: realE1, Stub: stubE1,
	})
	core.Register(&core.Profile{
		Property: "C03", Level: "exploration",
		Modes: []string{"faults", "faults", "dc"},
		Body: func(rc *core.RunCtx) {
			if rc.Mode == "dc" {
				c05Body(rc, "c03")
				return
			}
			runTSOWorld(rc, tsoRunCfg{prop: "c03", minNodes: 2, maxNodes: 3, faults: true,
				nemesis: []string{"crash", "etcd-partition", "leader-key-delete", "etcd-leader-move", "watch-cancel", "net-cut", "resign", "node-freeze", "node-freeze"}, intruder: true, allocIDClients: true},
				func(o *tsoOracle) {
					o.c03 = true
					o.e.OnTSO = func(node, inv, ret int) {
						if !o.leaseAliveDuring(node, o.e.LeaderKey(), inv, ret) {
							rc.Violate("c03.serve", "tso-served-without-lease", "node %d granted a timestamp (steps %d-%d) while it held no live leader lease", node, inv, ret)
						}
					}
					// sharper: the lease must have been alive at some instant between the generation of the timestamp
					// (the in-memory logical clock advancing) and the response
					rc.S.AddMonitor(o.monitorGen)
					o.e.OnTSOResp = func(node, inv, ret int, alloc string, phys, logical int64, bits uint32) {
						if alloc != "global" || bits != 0 {
							return
						}
						from := o.generatedAfter(node, phys, logical, ret)
						if from < inv {
							from = inv
						}
						if !o.leaseAliveDuring(node, o.e.LeaderKey(), from, ret) {
							rc.Violate("c03.serve", "tso-generated-without-lease", "node %d granted timestamp (%d,%d), generated after step %d and returned at step %d, while it held no live leader lease in between (request began at step %d)", node, phys, logical, from, ret, inv)
						}
					}
				})
		},
		MaxSteps: 600000, MaxTime: 10 * time.Minute,
		QuickBudget: 60 * time.Second, ThoroughBudget: 15 * time.Minute,
		Rule: "one run = 2-3 real PD servers contending for the PD leadership under crash, etcd partition (lease expiry), resign, leader-key deletion, etcd-leader moves, stalls, late lease expiry; TSO and AllocID clients target arbitrary members; an intruder task makes owners and non-owners attempt guarded writes (leader priority set/delete, dc-location delete, id window rebase, TSO window update) at arbitrary points. Oracles inside simetcd at every commit: leader record never overwritten while present; every change of a guarded key was issued by the member named in the leader record at commit time; a served TSO/AllocID implies the server held an etcd-live campaign lease at some instant of the request interval. non-trivial = >1 timestamp and a fault fired",
		Real: realE1, Stub: stubE1,
	})
}
