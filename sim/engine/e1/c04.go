package e1

import (
	"context"
	"fmt"
	"path"
	"pdsim/harness"
	"strings"
	"time"

	"github.com/pingcap/kvproto/pkg/pdpb"
	"github.com/tikv/pd/pkg/typeutil"
	"github.com/tikv/pd/server/id"

	"pdsim/engine/core"
	"pdsim/simetcd"
	"pdsim/simrt"
)

// C04: allocated ids are unique forever.

type idObs struct {
	id       uint64
	inst     string // allocator instance (node/incarnation or direct instance name)
	inv, ret int
}

type c04Oracle struct {
	rc      *core.RunCtx
	etcd    *simetcd.Cluster
	key     string
	seen    map[uint64]idObs
	perInst map[string][]idObs
	maxSt   uint64 // maximum alloc_id ever stored
}

func newC04Oracle(rc *core.RunCtx, etcd *simetcd.Cluster) *c04Oracle {
	o := &c04Oracle{rc: rc, etcd: etcd, seen: map[uint64]idObs{}, perInst: map[string][]idObs{}}
	etcd.OnCommit = append(etcd.OnCommit, func(c *simetcd.Commit) {
		for _, ch := range c.Changes {
			if !strings.HasSuffix(ch.Key, "/alloc_id") {
				continue
			}
			leaderKey := path.Join(path.Dir(ch.Key), "leader")
			if ch.Cur == nil {
				rc.Violate("c04.window", "window-deleted", "alloc_id deleted by node %d", c.Node)
				return
			}
			v, err := typeutil.BytesToUint64(ch.Cur.Value)
			if err != nil {
				rc.Violate("c04.window", "window-garbage", "alloc_id holds garbage %x", ch.Cur.Value)
				return
			}
			if v <= o.maxSt {
				rc.Violate("c04.window", "window-not-increasing", "stored alloc_id went %d -> %d (node %d)", o.maxSt, v, c.Node)
				return
			}
			o.maxSt = v
			rc.Extra["window_extensions"]++
			// the writer must be the recorded leader at commit time
			lk := etcd.Get(leaderKey)
			if c.Node >= 0 {
				want := ownerOf[c.Node]
				if lk == nil || string(lk.Value) != want {
					rc.Violate("c04.window", "non-leader-extended-window", "node %d (member value %q) extended alloc_id to %d while leader record is %q", c.Node, want, v, valOf(lk))
				}
			}
		}
	})
	return o
}

// ownerOf maps node -> member value of the instance allowed to write for it (set by the profile).
var ownerOf = map[int]string{}

func valOf(kv *simetcd.KV) string {
	if kv == nil {
		return "<absent>"
	}
	return string(kv.Value)
}

func (o *c04Oracle) observe(inst string, idv uint64, inv, ret int) {
	if prev, dup := o.seen[idv]; dup {
		o.rc.Violate("c04.unique", "duplicate-id", "id %d returned twice: by %s (steps %d-%d) and by %s (steps %d-%d)", idv, prev.inst, prev.inv, prev.ret, inst, inv, ret)
		return
	}
	ob := idObs{id: idv, inst: inst, inv: inv, ret: ret}
	o.seen[idv] = ob
	// durable bound: never larger than the largest stored window bound at return time
	if idv > o.maxSt {
		o.rc.Violate("c04.bound", "id-above-stored-window", "id %d returned by %s but largest stored alloc_id is %d", idv, inst, o.maxSt)
		return
	}
	if idv == 0 {
		o.rc.Violate("c04.unique", "zero-id", "id 0 returned by %s", inst)
		return
	}
	// strictly increasing within one allocator for non-overlapping calls
	for _, p := range o.perInst[inst] {
		if p.ret < inv && p.id >= idv {
			o.rc.Violate("c04.order", "not-increasing-within-allocator", "%s returned %d (steps %d-%d) and later %d (steps %d-%d)", inst, p.id, p.inv, p.ret, idv, inv, ret)
			return
		}
	}
	o.perInst[inst] = append(o.perInst[inst], ob)
}

func c04Direct(rc *core.RunCtx) {
	s := rc.S
	s.SetSchedKnobs(rc.KnobF("p_switch", 0.1, 0.5, 1.0), rc.KnobF("p_lock", 0, 0.2), 0, 0)
	etcd := simetcd.New(s)
	faults := rc.Mode == "direct-faults"
	if faults {
		etcd.Faults = simetcd.Faults{Enabled: true, PErrBefore: rc.KnobF("err_before", 0, 0.05, 0.2), PErrAfter: rc.KnobF("err_after", 0, 0.05, 0.2), OnlyWritesFail: rc.Knob("only_writes_fail", 2) == 1}
	}
	root := "/pd/1"
	nInst := 2 + rc.Knob("instances", 2)
	o := newC04Oracle(rc, etcd)
	type inst struct {
		node  int
		gen   int
		alloc id.Allocator
	}
	insts := make([]*inst, nInst)
	mk := func(i int) {
		cl := etcd.NewClient(context.Background(), i)
		g := 0
		if insts[i] != nil {
			g = insts[i].gen + 1
		}
		insts[i] = &inst{node: i, gen: g, alloc: id.NewAllocator(cl, root, fmt.Sprintf("member-%d", i))}
	}
	for i := range insts {
		ownerOf[i] = fmt.Sprintf("member-%d", i)
		mk(i)
	}
	etcd.PutDirect(path.Join(root, "leader"), []byte("member-0"))
	nOps := 20 + rc.Knob("ops", 60)
	burst := rc.Knob("burst", 3) // 0: singles, 1: bursts crossing the window, 2: huge bursts
	running := 0
	for i := 0; i < nInst; i++ {
		i := i
		running++
		s.Spawn(i, fmt.Sprintf("alloc-client-%d", i), func() {
			defer func() { running-- }()
			for k := 0; k < nOps; k++ {
				in := insts[i]
				name := fmt.Sprintf("inst%d.%d", i, in.gen)
				switch s.Choose(12, "op") {
				case 0:
					err := in.alloc.Rebase()
					rc.Extra["rebase"]++
					if err == nil {
						rc.Extra["rebase_ok"]++
					}
				case 1:
					// crash: instance dropped, new one created
					mk(i)
					rc.Extra["instance_recreated"]++
				default:
					n := 1
					if burst == 1 {
						n = 1 + s.Choose(700, "burst.n")
					} else if burst == 2 {
						n = 900 + s.Choose(300, "burst.n")
					}
					for j := 0; j < n; j++ {
						inv := s.Step
						v, err := in.alloc.Alloc()
						if err != nil {
							rc.Extra["alloc_err"]++
							break
						}
						rc.Extra["alloc_ok"]++
						o.observe(name, v, inv, s.Step)
						if len(rc.Viol) > 0 {
							return
						}
					}
				}
				simrt.Yield("client")
			}
		})
	}
	// leader record switches between the instances (and sometimes disappears)
	s.Spawn(-1, "leader-switcher", func() {
		fast := rc.Knob("switch_pace", 2) == 1
		for running > 0 {
			if fast {
				// step-paced: the leader record flips while allocators sit between their read and their transaction
				for y := 1 + s.Choose(12, "sw.yields"); y > 0; y-- {
					simrt.Yield("switcher")
				}
			} else {
				simrt.Sleep(time.Duration(1+s.Choose(20, "sw.gap")) * time.Millisecond)
			}
			k := s.Choose(nInst+1, "sw.to")
			if k == nInst {
				etcd.DeleteDirect(path.Join(root, "leader"))
			} else {
				etcd.PutDirect(path.Join(root, "leader"), []byte(fmt.Sprintf("member-%d", k)))
			}
			rc.Extra["leader_switch"]++
		}
	})
	for running > 0 {
		simrt.Sleep(5 * time.Millisecond)
	}
	rc.Nontrivial = rc.Extra["alloc_ok"] > 0 && (rc.Extra["leader_switch"] > 1 || rc.Extra["instance_recreated"] > 0)
	rc.Note("direct: instances=%d ops/inst=%d burst=%d allocs=%d errs=%d extensions=%d leader-switches=%d recreated=%d",
		nInst, nOps, burst, rc.Extra["alloc_ok"], rc.Extra["alloc_err"], rc.Extra["window_extensions"], rc.Extra["leader_switch"], rc.Extra["instance_recreated"])
	rc.State(fmt.Sprintf("ext=%d sw=%d rec=%d", min(rc.Extra["window_extensions"], 8), min(rc.Extra["leader_switch"], 8), min(rc.Extra["instance_recreated"], 4)))
}

func c04Server(rc *core.RunCtx) {
	s := rc.S
	faults := rc.Mode == "server-faults"
	e := Setup(rc, Opts{MinNodes: 1, MaxNodes: 3, Faults: faults})
	o := newC04Oracle(rc, e.W.Etcd)
	e.OnStart = func(n *harness.Node) { ownerOf[n.ID] = MemberValueOf(n) }
	if !e.StartAll() {
		return
	}
	if e.WaitLeader(20*time.Second) == nil {
		rc.Note("no leader within 20s")
		if !faults {
			rc.Anomaly("liveness: no-leader-fault-free: " + "no leader elected within 20 s without faults")
		}
		return
	}
	if faults {
		e.StartNemesis([]string{"crash", "etcd-partition", "lease-revoke", "leader-key-delete", "etcd-leader-move", "net-cut"}, 3*time.Second)
	}
	nClients := 2 + rc.Knob("clients", 3)
	nOps := 10 + rc.Knob("ops", 40)
	burst := rc.Knob("burst", 2)
	running := nClients
	for c := 0; c < nClients; c++ {
		c := c
		s.Spawn(-1, fmt.Sprintf("client-%d", c), func() {
			defer func() { running-- }()
			for k := 0; k < nOps && len(rc.Viol) == 0; k++ {
				nd := e.W.Nodes[s.Choose(len(e.W.Nodes), "cl.node")]
				cli := e.W.Net.Dial(nd.ClientURL)
				n := 1
				if burst == 1 && s.Choose(4, "cl.burst") == 0 {
					n = 300 + s.Choose(900, "cl.burst.n")
				}
				for j := 0; j < n && len(rc.Viol) == 0; j++ {
					ctx, cancel := Ctx(2 * time.Second)
					inv := s.Step
					incarn := nd.Incarn
					r, err := cli.AllocID(ctx, &pdpb.AllocIDRequest{Header: &pdpb.RequestHeader{ClusterId: e.ClusterID}})
					cancel()
					if err != nil {
						rc.Extra["alloc_err"]++
						break
					}
					rc.Extra["alloc_ok"]++
					o.observe(fmt.Sprintf("%s.%d", nd.Name, incarn), r.GetId(), inv, s.Step)
				}
				simrt.Sleep(time.Duration(s.Choose(400, "cl.gap")) * time.Millisecond)
			}
		})
	}
	for running > 0 && len(rc.Viol) == 0 {
		simrt.Sleep(100 * time.Millisecond)
	}
	if len(rc.Viol) > 0 {
		return
	}
	e.Quiesce()
	// bounded liveness once faults stop: an id is allocated within 30 s of simulated time
	ok := false
	deadline := s.Elapsed() + 30*time.Second
	for s.Elapsed() < deadline && !ok {
		if l := e.W.Leader(); l != nil {
			ctx, cancel := Ctx(2 * time.Second)
			inv := s.Step
			r, err := e.W.Net.Dial(l.ClientURL).AllocID(ctx, &pdpb.AllocIDRequest{Header: &pdpb.RequestHeader{ClusterId: e.ClusterID}})
			cancel()
			if err == nil {
				o.observe(fmt.Sprintf("%s.%d", l.Name, l.Incarn), r.GetId(), inv, s.Step)
				ok = true
			}
		}
		simrt.Sleep(200 * time.Millisecond)
	}
	if !ok && len(rc.Viol) == 0 {
		rc.Anomaly("liveness: no-alloc-after-quiesce: " + "no id could be allocated within 30 s after faults stopped")
	}
	rc.Nontrivial = rc.Extra["alloc_ok"] > 0 && (e.FaultsFired() || nClients > 1)
	rc.Note("server: nodes=%d clients=%d allocs=%d errs=%d extensions=%d crashes=%d nemesis=%v", len(e.W.Nodes), nClients, rc.Extra["alloc_ok"], rc.Extra["alloc_err"], rc.Extra["window_extensions"], e.Crashes, e.NemKinds)
	rc.State(fmt.Sprintf("srv ext=%d crashes=%d", min(rc.Extra["window_extensions"], 8), min(e.Crashes, 4)))
}

func init() {
	core.Register(&core.Profile{
		Property: "C04", Level: "exploration",
		Modes: []string{"direct", "direct-faults", "server", "server-faults", "direct-faults", "server-faults"},
		Body: func(rc *core.RunCtx) {
			for k := range ownerOf {
				delete(ownerOf, k)
			}
			if rc.Mode == "direct" || rc.Mode == "direct-faults" {
				c04Direct(rc)
			} else {
				c04Server(rc)
			}
		},
		MaxSteps: 400000, MaxTime: 5 * time.Minute,
		QuickBudget: 45 * time.Second, ThoroughBudget: 12 * time.Minute,
		Rule: "one run = one seeded schedule+fault sequence; modes: 2-3 id.Allocator instances sharing one simulated etcd with the leader record switched/deleted at random and instances dropped/recreated (direct), or 1-3 real PD servers serving AllocID RPCs under a nemesis (server); non-trivial = at least one id allocated and (a leader-record switch, an instance re-creation, a fault fired, or >1 concurrent client); distinct = distinct (interleaving hash, what-happened summary, knobs)",
		Real: realE1, Stub: stubE1,
	})
}
