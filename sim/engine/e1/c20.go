package e1

import (
	"fmt"
	"strings"
	"time"

	"github.com/golang/protobuf/proto"
	"github.com/pingcap/kvproto/pkg/metapb"
	"github.com/pingcap/kvproto/pkg/pdpb"
	"github.com/tikv/pd/pkg/typeutil"

	"pdsim/engine/core"
	"pdsim/harness"
	"pdsim/simetcd"
	"pdsim/simrt"
)

// C20: a cluster is bootstrapped exactly once and keeps one identity.

type bootReq struct {
	id        int
	req       *pdpb.BootstrapRequest
	malformed string
	acked     bool
	unknown   bool
}

func mkBootReq(rc *core.RunCtx, cid uint64, id int) *bootReq {
	s := rc.S
	sid := uint64(10 + id)
	b := &bootReq{id: id}
	b.req = &pdpb.BootstrapRequest{
		Header: &pdpb.RequestHeader{ClusterId: cid},
		Store:  &metapb.Store{Id: sid, Address: fmt.Sprintf("tikv%d:20160", id), Version: "5.0.0"},
		Region: &metapb.Region{Id: uint64(100 + id), RegionEpoch: &metapb.RegionEpoch{ConfVer: 1, Version: 1}, Peers: []*metapb.Peer{{Id: uint64(1000 + id), StoreId: sid}}},
	}
	switch s.Choose(9, "boot.malformed") {
	case 0:
		b.req.Store = nil
		b.malformed = "no store"
	case 1:
		b.req.Region = nil
		b.malformed = "no region"
	case 2:
		b.req.Region.Peers = nil
		b.malformed = "region without peers"
	case 3:
		b.req.Region.Peers[0].StoreId = sid + 500
		b.malformed = "peer on another store"
	}
	return b
}

func c20(rc *core.RunCtx) {
	s := rc.S
	faults := rc.Mode == "faults"
	e := Setup(rc, Opts{MinNodes: 1, MaxNodes: 3, Faults: faults})
	e.trackMembers()
	if faults {
		// start-up must be able to complete: keep error rates moderate
		e.W.Etcd.Faults.PErrBefore = rc.KnobF("etcd_err_before2", 0, 0.02)
	}
	etcd := e.W.Etcd
	// --- identity: /pd/cluster_id is created once and never changes
	var storedCID uint64
	// --- bootstrap: the raft meta keys are written by exactly one commit
	bootCommits := 0
	var bootChanges []simetcd.Change
	etcd.OnCommit = append(etcd.OnCommit, func(c *simetcd.Commit) {
		for _, ch := range c.Changes {
			if ch.Key == "/pd/cluster_id" {
				if ch.Prev != nil {
					rc.Violate("c20.identity", "cluster-id-changed", "/pd/cluster_id changed from %x to %v by node %d", ch.Prev.Value, ch.Cur, c.Node)
					return
				}
				if ch.Cur != nil {
					storedCID, _ = typeutil.BytesToUint64(ch.Cur.Value)
				}
			}
		}
		touches := false
		for _, ch := range c.Changes {
			if isBootKey(ch.Key) {
				touches = true
			}
		}
		if touches {
			bootCommits++
			if bootCommits > 1 {
				rc.Violate("c20.once", "bootstrap-data-changed-again", "bootstrap keys written a second time by node %d: %s", c.Node, c.Changes[0].Key)
				return
			}
			bootChanges = c.Changes
		}
	})
	// members race to initialise the cluster id
	starting := len(e.W.Nodes)
	for _, n := range e.W.Nodes {
		n := n
		s.Spawn(-1, "starter-"+n.Name, func() {
			defer func() { starting-- }()
			for i := 0; i < 20; i++ {
				if err := n.Start(); err == nil {
					return
				}
				rc.Extra["start_failed"]++
				simrt.Sleep(200 * time.Millisecond)
			}
		})
	}
	for starting > 0 {
		simrt.Sleep(10 * time.Millisecond)
	}
	checkIdentity := func(when string) bool {
		for _, n := range e.W.Nodes {
			if n.Srv == nil {
				continue
			}
			if got := n.Srv.ClusterID(); got != storedCID {
				rc.Violate("c20.identity", "members-disagree-on-cluster-id", "%s: member %s reports cluster id %d but the stored id is %d", when, n.Name, got, storedCID)
				return false
			}
		}
		return true
	}
	if !checkIdentity("after start") {
		return
	}
	for _, n := range e.W.Nodes {
		if n.Srv != nil {
			e.ClusterID = n.Srv.ClusterID()
			e.RootPath = fmt.Sprintf("/pd/%d", e.ClusterID)
		}
	}
	if e.ClusterID == 0 {
		return
	}
	if e.WaitLeader(20*time.Second) == nil {
		rc.Anomaly("liveness: no leader")
		return
	}
	if faults {
		e.StartNemesis([]string{"crash", "etcd-partition", "etcd-leader-move", "resign"}, 1500*time.Millisecond)
	}
	rounds := 1 + rc.Knob("rounds", 3)
	nextID := 0
	var all []*bootReq
	for round := 0; round < rounds && len(rc.Viol) == 0; round++ {
		nReq := 2 + rc.Knob(fmt.Sprintf("reqs%d", round), 5)
		running := nReq
		for i := 0; i < nReq; i++ {
			b := mkBootReq(rc, e.ClusterID, nextID)
			nextID++
			all = append(all, b)
			s.Spawn(-1, fmt.Sprintf("bootstrap-%d", b.id), func() {
				defer func() { running-- }()
				target := e.W.Leader()
				if target == nil || s.Choose(4, "boot.any") == 0 {
					target = e.W.Nodes[s.Choose(len(e.W.Nodes), "boot.node")]
				}
				ctx, cancel := Ctx(10 * time.Second)
				defer cancel()
				resp, err := e.W.Net.Dial(target.ClientURL).Bootstrap(ctx, b.req)
				switch {
				case err == nil && resp.GetHeader().GetError() == nil:
					b.acked = true
					rc.Extra["bootstrap_acked"]++
				case err != nil && (strings.Contains(err.Error(), "injected") || strings.Contains(err.Error(), "DeadlineExceeded") || strings.Contains(err.Error(), "Unavailable") || strings.Contains(err.Error(), "context")):
					b.unknown = true
					rc.Extra["bootstrap_unknown"]++
				default:
					rc.Extra["bootstrap_refused"]++
				}
			})
		}
		// requests carrying a different cluster id are refused by every handler exercised
		running++
		s.Spawn(-1, "foreign-cluster-id", func() {
			defer func() { running-- }()
			c20Foreign(rc, e)
		})
		for running > 0 && len(rc.Viol) == 0 {
			simrt.Sleep(20 * time.Millisecond)
		}
		if round+1 < rounds {
			// leader change between rounds
			if l := e.W.Leader(); l != nil && len(e.W.Nodes) > 1 {
				if s.Choose(2, "boot.leaderchange") == 0 {
					l.Crash()
					e.Crashes++
					s.Spawn(-1, "restart", func() { simrt.Sleep(time.Second); l.Start() })
				} else {
					e.inject("resign")
				}
				e.W.Etcd.SetEtcdLeader(e.W.Nodes[s.Choose(len(e.W.Nodes), "boot.newleader")].ID)
			}
			simrt.Sleep(time.Duration(500+s.Choose(4000, "boot.roundgap")) * time.Millisecond)
			e.WaitLeader(15 * time.Second)
		}
	}
	if len(rc.Viol) > 0 {
		return
	}
	e.Quiesce()
	simrt.Sleep(2 * time.Second)
	if !checkIdentity("at the end") {
		return
	}
	// exactly one succeeds
	var acked []*bootReq
	unknown := 0
	for _, b := range all {
		if b.acked {
			acked = append(acked, b)
		}
		if b.unknown {
			unknown++
		}
	}
	if len(acked) > 1 {
		rc.Violate("c20.once", "two-bootstraps-acknowledged", "bootstrap requests #%d and #%d were both acknowledged", acked[0].id, acked[1].id)
		return
	}
	if len(acked) == 1 && acked[0].malformed != "" {
		rc.Violate("c20.once", "malformed-bootstrap-accepted", "malformed bootstrap request #%d (%s) was acknowledged", acked[0].id, acked[0].malformed)
		return
	}
	if len(acked) == 1 && bootCommits != 1 {
		rc.Violate("c20.once", "acknowledged-but-not-stored", "bootstrap #%d acknowledged but %d bootstrap commits were applied", acked[0].id, bootCommits)
		return
	}
	if bootCommits == 1 {
		// the stored cluster meta, first store and first region all come from one request
		var owner *bootReq
		for _, b := range all {
			if b.req.Store != nil && b.req.Region != nil && storedFrom(bootChanges, b) {
				owner = b
			}
		}
		if owner == nil {
			rc.Violate("c20.once", "stored-bootstrap-data-mixed", "stored bootstrap store/region do not all come from one request: %s", describeChanges(bootChanges))
			return
		}
		if len(acked) == 1 && owner != acked[0] {
			rc.Violate("c20.once", "stored-data-from-other-request", "bootstrap #%d was acknowledged but the stored data come from #%d", acked[0].id, owner.id)
			return
		}
		if len(acked) == 0 && !owner.unknown {
			rc.Violate("c20.once", "refused-request-applied", "bootstrap #%d was refused but its data were stored", owner.id)
			return
		}
		// the current snapshot still holds exactly that store and region
		stores := etcd.Snapshot(e.RootPath + "/raft/s/")
		regions := etcd.Snapshot(e.RootPath + "/raft/r/")
		if len(stores) != 1 || len(regions) != 1 {
			rc.Violate("c20.once", "extra-bootstrap-records", "expected one store and one region record, found %d and %d", len(stores), len(regions))
			return
		}
	} else if bootCommits == 0 && len(acked) == 0 && unknown == 0 {
		wellFormed := 0
		for _, b := range all {
			if b.malformed == "" {
				wellFormed++
			}
		}
		if wellFormed > 0 && !faults {
			rc.Anomaly("no bootstrap succeeded although %d well-formed requests were sent without faults", wellFormed)
		}
	}
	rc.Nontrivial = len(all) > 1 && (bootCommits == 1)
	rc.Note("nodes=%d rounds=%d requests=%d acked=%d unknown=%d refused=%d foreign_refused=%d crashes=%d", len(e.W.Nodes), rounds, len(all), len(acked), unknown, rc.Extra["bootstrap_refused"], rc.Extra["foreign_refused"], e.Crashes)
	rc.State(fmt.Sprintf("acked=%d unknown=%d commits=%d", len(acked), min(unknown, 3), bootCommits))
}

func isBootKey(k string) bool {
	i := strings.Index(k, "/raft")
	if i < 0 || !strings.HasPrefix(k, "/pd/") {
		return false
	}
	rest := k[i+len("/raft"):]
	return rest == "" || strings.HasPrefix(rest, "/s/") || strings.HasPrefix(rest, "/r/") || strings.HasSuffix(rest, "raft_bootstrap_time")
}

func storedFrom(chs []simetcd.Change, b *bootReq) bool {
	sv, _ := proto.Marshal(b.req.Store)
	rv, _ := proto.Marshal(b.req.Region)
	okS, okR, okMeta := false, false, false
	for _, ch := range chs {
		if ch.Cur == nil {
			return false
		}
		switch {
		case strings.Contains(ch.Key, "/raft/s/"):
			if string(ch.Cur.Value) != string(sv) || !strings.HasSuffix(ch.Key, fmt.Sprintf("%020d", b.req.Store.GetId())) {
				return false
			}
			okS = true
		case strings.Contains(ch.Key, "/raft/r/"):
			if string(ch.Cur.Value) != string(rv) || !strings.HasSuffix(ch.Key, fmt.Sprintf("%020d", b.req.Region.GetId())) {
				return false
			}
			okR = true
		case strings.HasSuffix(ch.Key, "/raft"):
			okMeta = true
		}
	}
	return okS && okR && okMeta
}

func describeChanges(chs []simetcd.Change) string {
	var b strings.Builder
	for _, ch := range chs {
		fmt.Fprintf(&b, "%s ", ch.Key)
	}
	return b.String()
}

// c20Foreign sends requests with a wrong cluster id to several handlers; all must be refused.
func c20Foreign(rc *core.RunCtx, e *Env) {
	s := rc.S
	l := e.W.Leader()
	if l == nil {
		return
	}
	cli := e.W.Net.Dial(l.ClientURL)
	bad := &pdpb.RequestHeader{ClusterId: e.ClusterID + 1 + uint64(s.Choose(5, "foreign.delta"))}
	refused := func(name string, err error, hdrErr *pdpb.Error) {
		if err == nil && hdrErr == nil {
			rc.Violate("c20.identity", "foreign-cluster-id-accepted", "%s accepted a request carrying cluster id %d (ours is %d)", name, bad.ClusterId, e.ClusterID)
			return
		}
		rc.Extra["foreign_refused"]++
	}
	for k := 0; k < 3 && len(rc.Viol) == 0; k++ {
		ctx, cancel := Ctx(3 * time.Second)
		switch s.Choose(8, "foreign.kind") {
		case 0:
			r, err := cli.AllocID(ctx, &pdpb.AllocIDRequest{Header: bad})
			refused("AllocID", err, r.GetHeader().GetError())
		case 1:
			r, err := cli.IsBootstrapped(ctx, &pdpb.IsBootstrappedRequest{Header: bad})
			refused("IsBootstrapped", err, r.GetHeader().GetError())
		case 2:
			b := mkBootReq(rc, bad.ClusterId, 900+k)
			r, err := cli.Bootstrap(ctx, b.req)
			refused("Bootstrap", err, r.GetHeader().GetError())
		case 3:
			r, err := cli.GetStore(ctx, &pdpb.GetStoreRequest{Header: bad, StoreId: 10})
			refused("GetStore", err, r.GetHeader().GetError())
		case 4:
			r, err := cli.PutStore(ctx, &pdpb.PutStoreRequest{Header: bad, Store: &metapb.Store{Id: 77, Address: "x:1"}})
			refused("PutStore", err, r.GetHeader().GetError())
		case 5:
			r, err := cli.GetRegion(ctx, &pdpb.GetRegionRequest{Header: bad, RegionKey: []byte("a")})
			refused("GetRegion", err, r.GetHeader().GetError())
		case 6:
			r, err := cli.UpdateGCSafePoint(ctx, &pdpb.UpdateGCSafePointRequest{Header: bad, SafePoint: 5})
			refused("UpdateGCSafePoint", err, r.GetHeader().GetError())
		case 7:
			st, err := cli.Tso(ctx)
			if err == nil {
				if err = st.Send(&pdpb.TsoRequest{Header: bad, Count: 1}); err == nil {
					_, err = st.Recv()
				}
			}
			refused("Tso", err, nil)
		}
		cancel()
	}
}

var _ = harness.NewWorld

func init() {
	core.Register(&core.Profile{
		Property: "C20", Level: "exploration",
		Modes:    []string{"faultfree", "faults", "faults"},
		Body:     c20,
		MaxSteps: 500000, MaxTime: 5 * time.Minute,
		QuickBudget: 45 * time.Second, ThoroughBudget: 10 * time.Minute,
		Rule: "one run = 1-3 real PD members started concurrently (racing initOrGetClusterID, with etcd errors incl. unknown outcome), then 1-3 rounds of 2-6 concurrent Bootstrap requests with distinct and malformed payloads sent to the leader or to arbitrary members, with a leader change (crash or resign) between rounds, plus requests carrying a foreign cluster id to 8 handlers; oracles: /pd/cluster_id written once, every member reports it; the bootstrap keys (raft meta, first store, first region, bootstrap time) are written by exactly one commit whose data all come from one request, which is the acknowledged one (or an unknown-outcome one); at most one acknowledgement; malformed never acknowledged. non-trivial = >1 request and a bootstrap commit happened",
		Real: realE1, Stub: stubE1,
	})
}
