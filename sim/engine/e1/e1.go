// Package e1 holds the "members" engine: 1-3 real PD servers (real leader loop,
// TSO allocator daemon, id allocator, gRPC handler methods) over the simulated
// etcd and network, with a nemesis injecting crashes, lease loss, partitions,
// etcd-leader moves and wall-clock jumps.
package e1

import (
	"context"
	"fmt"
	"github.com/tikv/pd/server/config"
	"path"
	"strconv"
	"time"

	"pdsim/engine/core"
	"pdsim/harness"
	"pdsim/simetcd"
	"pdsim/simrt"
)

var (
	realE1 = []string{"server.Server (startServer, leaderLoop, campaignLeader, gRPC handler methods)", "server/tso", "server/election", "server/member", "server/id", "server/kv (etcd_kv, leveldb on in-memory storage)", "server/core.Storage", "server/cluster.RaftCluster (construction)", "server/config", "pkg/etcdutil, pkg/tsoutil, pkg/typeutil", "go.etcd.io/etcd/clientv3 client-side KV/Txn/Op/Cmp code", "goleveldb"}
	stubE1 = []string{"etcd server (simetcd: MVCC model with revisions, leases, txns, watches)", "embedded etcd / raft membership (GetEtcdLeader answered by the simulator)", "gRPC transport (simnet: handler methods invoked as tasks, simulated streams)", "HTTP API layer", "OS clock (synctest fake clock + per-node wall offset)", "file system below goleveldb's storage interface", "TiKV"}
)

// Env is one E1 run.
type Env struct {
	RC         *core.RunCtx
	S          *simrt.Sim
	W          *harness.World
	ClusterID  uint64
	RootPath   string
	stopNem    bool
	nemDone    chan struct{}
	Crashes    int
	MaxJump    time.Duration
	NemKinds   []string
	OnStart    func(n *harness.Node)
	memberVals map[int]string
	OnTSO      func(node, inv, ret int)
	OnTSOResp  func(node, inv, ret int, alloc string, phys, logical int64, bits uint32)
}

// Opts configures Setup.
type Opts struct {
	MinNodes, MaxNodes int
	Faults             bool
	TSOKnobs           bool // vary the TSO save interval
	LocalTSO           bool
	DCs                []string
}

// Setup draws the run's knobs, creates the world and starts the members.
func Setup(rc *core.RunCtx, o Opts) *Env {
	s := rc.S
	e := &Env{RC: rc, S: s}
	pSwitch := rc.KnobF("p_switch", 0.05, 0.3, 1.0, 0.01)
	pLock := rc.KnobF("p_lock", 0, 0.05, 0.3)
	pStall := 0.0
	maxStall := time.Second
	if o.Faults {
		pStall = rc.KnobF("p_stall", 0, 0.0003, 0.003, 0.02)
		maxStall = rc.KnobD("max_stall", 100*time.Millisecond, time.Second, 4*time.Second)
	}
	s.SetSchedKnobs(pSwitch, pLock, pStall, maxStall)
	if o.Faults {
		s.SetFreezeKnobs(rc.KnobF("p_freeze", 0, 0.001, 0.01), rc.KnobD("max_freeze", 50*time.Millisecond, time.Second, 5*time.Second))
	}
	n := o.MinNodes + rc.Knob("nodes", o.MaxNodes-o.MinNodes+1)
	e.W = harness.NewWorld(s, n)
	e.W.Etcd.Faults.BaseLatency = rc.KnobD("etcd_latency", 0, 200*time.Microsecond, 2*time.Millisecond)
	if o.Faults {
		f := &e.W.Etcd.Faults
		f.Enabled = true
		f.PErrBefore = rc.KnobF("etcd_err_before", 0, 0, 0.01, 0.05)
		f.PErrAfter = rc.KnobF("etcd_err_after", 0, 0, 0.01, 0.05)
		f.PDelay = rc.KnobF("etcd_delay", 0, 0.02, 0.1)
		f.MaxDelay = rc.KnobD("etcd_max_delay", 10*time.Millisecond, 500*time.Millisecond, 4*time.Second)
		f.LeaseLag = rc.KnobD("lease_lag", 0, 0, 300*time.Millisecond, 2*time.Second)
		nf := &e.W.Net.Faults
		nf.Enabled = true
		nf.PDrop = rc.KnobF("net_drop", 0, 0, 0.02)
		nf.PDelay = rc.KnobF("net_delay", 0, 0.05)
		nf.MaxDelay = rc.KnobD("net_max_delay", 5*time.Millisecond, 300*time.Millisecond)
	}
	for _, nd := range e.W.Nodes {
		nd.OnStarted = func(n *harness.Node) {
			if e.OnStart != nil {
				e.OnStart(n)
			}
		}
	}
	if o.TSOKnobs {
		// the distance between the in-memory clock and the stored window: the default (3s) and much shorter ones, so
		// that "the clock catches up with the window" happens within a run
		saveInt := rc.KnobD("tso_save_interval", 3*time.Second, 3*time.Second, 200*time.Millisecond, 20*time.Millisecond)
		for _, nd := range e.W.Nodes {
			prev := nd.CfgTweak
			nd.CfgTweak = func(c *config.Config) {
				if prev != nil {
					prev(c)
				}
				c.TSOSaveInterval.Duration = saveInt
			}
		}
	}
	for i, nd := range e.W.Nodes {
		if o.LocalTSO && len(o.DCs) > 0 {
			nd.LocalTSO = true
			nd.Labels = map[string]string{"zone": o.DCs[i%len(o.DCs)]}
		}
	}
	return e
}

// StartAll starts every member; returns false if start-up failed (possible under faults).
func (e *Env) StartAll() bool {
	for _, n := range e.W.Nodes {
		if err := n.Start(); err != nil {
			e.RC.Note("start %s failed: %v", n.Name, err)
			return false
		}
	}
	for _, n := range e.W.Nodes {
		if n.Srv != nil {
			e.ClusterID = n.Srv.ClusterID()
			e.RootPath = path.Join("/pd", strconv.FormatUint(e.ClusterID, 10))
		}
	}
	return true
}

// WaitLeader waits (simulated time) until some member serves as leader.
func (e *Env) WaitLeader(max time.Duration) *harness.Node {
	deadline := e.S.Elapsed() + max
	for e.S.Elapsed() < deadline {
		if l := e.W.Leader(); l != nil {
			return l
		}
		simrt.Sleep(50 * time.Millisecond)
	}
	return e.W.Leader()
}

// LeaderKey is the PD leader key.
func (e *Env) LeaderKey() string { return path.Join(e.RootPath, "leader") }

// Ctx returns a context with a simulated timeout.
func Ctx(d time.Duration) (context.Context, context.CancelFunc) {
	return context.WithTimeout(context.Background(), d)
}

// ---------------------------------------------------------------- nemesis

// AllNemesis lists the E1 fault kinds.
var AllNemesis = []string{"crash", "etcd-partition", "lease-revoke", "leader-key-delete", "etcd-leader-move", "clock-jump", "watch-cancel", "net-cut"}

// StartNemesis starts a task injecting a random subset (swarm) of the given fault kinds.
func (e *Env) StartNemesis(kinds []string, meanGap time.Duration) {
	rc := e.RC
	// swarm: each kind enabled with probability 1/2
	var enabled []string
	for _, k := range kinds {
		if rc.Knob("nem."+k, 2) == 1 {
			enabled = append(enabled, k)
		}
	}
	e.NemKinds = enabled
	e.MaxJump = rc.KnobD("max_clock_jump", 50*time.Millisecond, 2*time.Second, time.Minute, 2*time.Hour)
	e.nemDone = make(chan struct{})
	if len(enabled) == 0 {
		close(e.nemDone)
		return
	}
	e.S.Spawn(-1, "nemesis", func() {
		defer close(e.nemDone)
		for !e.stopNem {
			gap := time.Duration(1+e.S.Choose(2000, "nem.gap")) * meanGap / 1000
			simrt.Sleep(gap)
			if e.stopNem {
				return
			}
			e.inject(enabled[e.S.Choose(len(enabled), "nem.kind")])
		}
	})
}

// startStaleTermScript: the leader L is cut off from etcd for longer than its lease (its requests stay in flight, as
// with a gRPC call waiting for the connection to come back), another member M with a faster clock leads for a while,
// then M steps down and is cut off while L comes back and may win again: whatever L sent in its earlier term is
// delivered now, possibly after L's new campaign.
func (e *Env) startStaleTermScript(running *int) {
	s, w := e.S, e.W
	e.NemKinds = append(e.NemKinds, "stale-term-script")
	w.Etcd.Faults.Enabled = true
	w.Etcd.Faults.PDelay = e.RC.KnobF("st_delay", 0.2, 0.5)
	w.Etcd.Faults.MaxDelay = e.RC.KnobD("st_max_delay", 300*time.Millisecond, 1500*time.Millisecond)
	w.Etcd.Faults.ReconnectMax = e.RC.KnobD("st_reconnect", 0, 1500*time.Millisecond, 3*time.Second)
	done := make(chan struct{})
	prev := e.nemDone
	e.nemDone = done
	s.Spawn(-1, "stale-term-script", func() {
		defer close(done)
		defer func() { *running-- }()
		if prev != nil {
			defer func() { <-prev; simrt.Resume() }()
		}
		for round := 0; round < 4 && !e.stopNem; round++ {
			simrt.Sleep(time.Duration(1000+s.Choose(4000, "st.wait")) * time.Millisecond)
			var l *harness.Node
			for _, n := range w.Nodes {
				if n.Up && n.Srv != nil && n.Srv.SimMember().IsLeader() {
					l = n
				}
			}
			if l == nil {
				continue
			}
			var others []*harness.Node
			for _, n := range w.Nodes {
				if n != l && n.Up {
					others = append(others, n)
				}
			}
			if len(others) == 0 {
				return
			}
			m := others[s.Choose(len(others), "st.other")]
			// M's clock is ahead, so the window it stores lies above L's
			s.SetWallOffset(m.ID, s.WallOffset(l.ID)+time.Duration(1+s.Choose(6000, "st.skew"))*time.Millisecond)
			s.Count("fault.stale-term-script")
			cut := time.Duration(3200+s.Choose(5000, "st.cut")) * time.Millisecond
			if s.Choose(3, "st.how") == 0 {
				// ... or the whole process of L is paused instead (its tasks continue where they were when it wakes up)
				s.FreezeNode(l.ID, cut+time.Duration(s.Choose(1500, "st.thaw"))*time.Millisecond)
			} else {
				w.Etcd.SetPartitioned(l.ID, true)
			}
			// (an embedded etcd member that is cut off loses the etcd leadership; PD campaigns only on the etcd leader)
			w.Etcd.SetEtcdLeader(m.ID)
			simrt.Sleep(cut)
			if m.Up && m.Srv != nil && m.Srv.SimMember().IsLeader() {
				srv := m.Srv
				s.Spawn(m.ID, "resign", func() { srv.SimMember().ResetLeader() })
				simrt.Sleep(time.Duration(s.Choose(300, "st.resign")) * time.Millisecond)
			}
			for _, n := range others {
				w.Etcd.SetPartitioned(n.ID, true)
			}
			w.Etcd.SetPartitioned(l.ID, false)
			w.Etcd.SetEtcdLeader(l.ID)
			simrt.Sleep(time.Duration(1500+s.Choose(3000, "st.back")) * time.Millisecond)
			for _, n := range others {
				w.Etcd.SetPartitioned(n.ID, false)
			}
		}
	})
}

func (e *Env) inject(kind string) {
	s, w := e.S, e.W
	nd := w.Nodes[s.Choose(len(w.Nodes), "nem.node")]
	switch kind {
	case "crash":
		if !nd.Up {
			return
		}
		s.Event("NEMESIS crash %s", nd.Name)
		nd.Crash()
		e.Crashes++
		e.RC.Note("crash %s @%v", nd.Name, s.Elapsed().Round(time.Millisecond))
		down := time.Duration(s.Choose(5000, "nem.down")) * time.Millisecond
		s.Spawn(-1, "restart", func() {
			simrt.Sleep(down)
			for i := 0; i < 20 && !e.stopNem; i++ {
				if err := nd.Start(); err == nil {
					return
				}
				simrt.Sleep(time.Second)
			}
		})
	case "etcd-partition":
		d := time.Duration(100+s.Choose(8000, "nem.part")) * time.Millisecond
		s.Count("fault.etcd-partition")
		e.RC.Note("etcd-partition %s %v @%v", nd.Name, d, s.Elapsed().Round(time.Millisecond))
		w.Etcd.SetPartitioned(nd.ID, true)
		s.Spawn(-1, "heal", func() {
			simrt.Sleep(d)
			w.Etcd.SetPartitioned(nd.ID, false)
		})
	case "lease-revoke":
		if w.Etcd.RevokeLeaseOfKey(e.LeaderKey()) {
			s.Count("fault.lease-revoke")
			e.RC.Note("lease-revoke @%v", s.Elapsed().Round(time.Millisecond))
		}
	case "leader-key-delete":
		if w.Etcd.DeleteDirect(e.LeaderKey()) {
			s.Count("fault.leader-key-delete")
			e.RC.Note("leader-key-delete @%v", s.Elapsed().Round(time.Millisecond))
		}
	case "etcd-leader-move":
		s.Count("fault.etcd-leader-move")
		w.Etcd.SetEtcdLeader(nd.ID)
		e.RC.Note("etcd-leader->%s @%v", nd.Name, s.Elapsed().Round(time.Millisecond))
	case "clock-jump":
		off := time.Duration(s.Choose(2001, "nem.jump")-1000) * e.MaxJump / 1000
		s.Count("fault.clock-jump")
		s.SetWallOffset(nd.ID, s.WallOffset(nd.ID)+off)
		e.RC.Note("clock-jump %s %+v @%v", nd.Name, off, s.Elapsed().Round(time.Millisecond))
	case "node-freeze":
		// the whole process pauses, possibly for longer than its leader lease
		d := time.Duration(200+s.Choose(7000, "nem.freeze")) * time.Millisecond
		s.FreezeNode(nd.ID, d)
		e.RC.Note("node-freeze %s %v @%v", nd.Name, d, s.Elapsed().Round(time.Millisecond))
	case "watch-cancel":
		if n := w.Etcd.CancelWatches(nd.ID); n > 0 {
			s.Count("fault.watch-cancel")
		}
	case "resign":
		if !nd.Up || nd.Srv == nil || !nd.Srv.SimMember().IsLeader() {
			return
		}
		srv := nd.Srv
		s.Count("fault.resign")
		e.RC.Note("resign %s @%v", nd.Name, s.Elapsed().Round(time.Millisecond))
		s.Spawn(nd.ID, "resign", func() { srv.SimMember().ResetLeader() })
	case "net-cut":
		other := w.Nodes[s.Choose(len(w.Nodes), "nem.node2")]
		d := time.Duration(100+s.Choose(5000, "nem.cut")) * time.Millisecond
		s.Count("fault.net-cut")
		w.Net.SetCut(nd.ID, other.ID, true)
		s.Spawn(-1, "heal-net", func() {
			simrt.Sleep(d)
			w.Net.SetCut(nd.ID, other.ID, false)
		})
	}
}

// Quiesce stops all faults, heals everything and restarts crashed members.
func (e *Env) Quiesce() {
	e.stopNem = true
	w := e.W
	w.Etcd.Faults.Enabled = false
	w.Net.Faults.Enabled = false
	w.Net.HealAll()
	for _, n := range w.Nodes {
		w.Etcd.SetPartitioned(n.ID, false)
	}
	e.S.SetSchedKnobs(0.2, 0, 0, 0)
	e.S.SetFreezeKnobs(0, 0)
	if w.Etcd.EtcdLeaderNode() < 0 {
		w.Etcd.SetEtcdLeader(0)
	}
	for _, n := range w.Nodes {
		if !n.Up {
			for i := 0; i < 10; i++ {
				if err := n.Start(); err == nil {
					break
				}
				simrt.Sleep(time.Second)
			}
		}
	}
}

// FaultsFired tells whether any fault fired in this run.
func (e *Env) FaultsFired() bool {
	for k, v := range e.S.Stats {
		if v > 0 && len(k) > 6 && k[:6] == "fault." {
			return true
		}
	}
	return false
}

// MemberValueOf returns the member value string of a node's current server.
func MemberValueOf(n *harness.Node) string {
	if n.Srv == nil {
		return ""
	}
	return n.Srv.SimMember().MemberValue()
}

var _ = fmt.Sprintf
var _ = simetcd.MemberID

type simetcdCommit = simetcd.Commit

func simetcdMemberID(node int) uint64 { return simetcd.MemberID(node) }
