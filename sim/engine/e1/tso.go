package e1

import (
	"encoding/binary"
	"fmt"
	"path"
	"sort"
	"strconv"
	"strings"
	"time"

	"github.com/pingcap/kvproto/pkg/pdpb"

	"pdsim/engine/core"
	"pdsim/harness"
	"pdsim/simetcd"
	"pdsim/simrt"
)

// ---------------------------------------------------------------- TSO history and oracles (C01, C02, C03, C05)

const logicalBits = 18

type tsResp struct {
	alloc         string // "global" or dc-location
	node          int
	phys, logical int64
	bits, count   uint32
	inv, ret      int
	invAt         time.Time
	lo, hi        uint64
	stride        uint64
	view          map[string]bool // global only: dc-locations in the serving member's view when the request was sent
}

func compose(phys, logical int64) uint64 { return uint64(phys)<<logicalBits + uint64(logical) }

type leaseOwn struct {
	node     int
	from, to int // steps; to = -1 while alive
}

type tsoOracle struct {
	rc  *core.RunCtx
	e   *Env
	c01 bool
	c02 bool
	c03 bool
	c05 bool

	all        map[string][]tsResp
	prefMax    map[string][]uint64
	rets       map[string][]int
	stored     map[string]int64 // alloc -> stored window (ns)
	ackedFloor map[string]int64
	// leader records: leader key -> current owner value and node
	leaderVal map[string]string
	// etcd-side lease ownership per leader key: intervals in which a node's campaign lease was alive
	leases      map[int64]*leaseOwn    // lease id -> owner
	keyLease    map[string][]*leaseOwn // leader key -> leases that ever held it
	memberOf    map[string]int         // member value -> node
	suffixes    map[string]string      // dc -> suffix value once assigned
	maxTS       uint64
	lastElected map[string]int // allocator -> step of its latest successful campaign
	suffixStep  map[string]int
	suffixTime  map[string]time.Time // dc -> when its suffix was assigned
	electedTime map[string]time.Time // allocator -> time of its latest successful campaign
	genSeen     map[int]int          // node -> step of the latest observation
	gen         map[int][]genAt      // node -> observed changes of the global allocator's in-memory (physical, logical)
}

// genAt: the global allocator's in-memory TSO of a node as observed after a scheduler step.
type genAt struct {
	step    int
	prev    int   // the last step at which the previous value was still observed
	phys    int64 // ms
	logical int64
}

func newTSOOracle(rc *core.RunCtx, e *Env) *tsoOracle {
	o := &tsoOracle{rc: rc, e: e, all: map[string][]tsResp{}, prefMax: map[string][]uint64{}, rets: map[string][]int{},
		stored: map[string]int64{}, ackedFloor: map[string]int64{}, leaderVal: map[string]string{}, leases: map[int64]*leaseOwn{}, keyLease: map[string][]*leaseOwn{},
		memberOf: map[string]int{}, suffixes: map[string]string{}, lastElected: map[string]int{}, suffixStep: map[string]int{}, gen: map[int][]genAt{}, genSeen: map[int]int{}, suffixTime: map[string]time.Time{}, electedTime: map[string]time.Time{}}
	e.W.Etcd.OnCommit = append(e.W.Etcd.OnCommit, o.onCommit)
	return o
}

// allocOfTimestampKey maps <root>/timestamp -> global, <root>/<dc>/timestamp -> dc.
func (o *tsoOracle) allocOfTimestampKey(key string) string {
	dir := path.Dir(key)
	if path.Base(path.Dir(dir)) == "pd" {
		return "global"
	}
	return path.Base(dir)
}

// leaderKeyFor returns the leader key guarding a stored key (PD leader for everything except local allocator windows).
func (o *tsoOracle) leaderKeyFor(key string) string {
	if strings.HasSuffix(key, "/timestamp") {
		dir := path.Dir(key)
		if path.Base(path.Dir(dir)) == "pd" {
			return path.Join(dir, "leader")
		}
		return dir // local allocator: leader key is <root>/<dc>
	}
	// <root>/alloc_id, <root>/member/<id>/leader_priority, <root>/dc-location/<id>
	parts := strings.Split(key, "/")
	if len(parts) >= 3 {
		return "/" + path.Join(parts[1], parts[2], "leader")
	}
	return ""
}

func isLeaderKey(key string) bool {
	// /pd/<cid>/leader or /pd/<cid>/<dc> (local allocator; dc names in the simulator start with "dc")
	parts := strings.Split(key, "/")
	return len(parts) == 4 && parts[1] == "pd" && (parts[3] == "leader" || strings.HasPrefix(parts[3], "dc"))
}

func isGuardedKey(key string) bool {
	return strings.HasSuffix(key, "/timestamp") || strings.HasSuffix(key, "/alloc_id") || strings.HasSuffix(key, "/leader_priority") ||
		strings.Contains(key, "/dc-location/")
}

func (o *tsoOracle) onCommit(c *simetcd.Commit) {
	rc := o.rc
	for _, ch := range c.Changes {
		key := ch.Key
		switch {
		case strings.HasSuffix(key, "/timestamp"):
			alloc := o.allocOfTimestampKey(key)
			if ch.Cur == nil {
				if o.c02 {
					rc.Violate("c02.window", "window-deleted", "stored window %s deleted by node %d", key, c.Node)
				}
				continue
			}
			if len(ch.Cur.Value) != 8 {
				if o.c02 {
					rc.Violate("c02.window", "window-garbage", "stored window %s = %x", key, ch.Cur.Value)
				}
				continue
			}
			v := int64(binary.BigEndian.Uint64(ch.Cur.Value))
			// the stored bound never decreases below a value whose save was acknowledged; a save that was
			// applied but reported as failed (unknown outcome) may legitimately be lost again
			if floor, ok := o.ackedFloor[alloc]; ok && v < floor && o.c02 {
				rc.Violate("c02.window", "stored-window-decreased", "stored window of %s went back from acknowledged %s to %s (node %d, %s)",
					alloc, time.Unix(0, floor).UTC().Format(time.RFC3339Nano), time.Unix(0, v).UTC().Format(time.RFC3339Nano), c.Node, c.Reason)
			}
			if !c.Unacked && v > o.ackedFloor[alloc] {
				o.ackedFloor[alloc] = v
			}
			if c.Unacked {
				rc.Extra["window_save_unacked"]++
			}
			o.stored[alloc] = v
			rc.Extra["window_saves"]++
			rc.S.Event("window save %s by n%d -> %s", alloc, c.Node, time.Unix(0, v).UTC().Format("15:04:05.000"))
		case strings.Contains(key, "/local-tso-suffix/"):
			dc := path.Base(key)
			if ch.Cur == nil {
				continue
			}
			if prev, ok := o.suffixes[dc]; ok && prev != string(ch.Cur.Value) && o.c05 {
				rc.Violate("c05.suffix", "suffix-changed", "suffix of %s changed from %s to %s", dc, prev, ch.Cur.Value)
			}
			for odc, sv := range o.suffixes {
				if odc != dc && sv == string(ch.Cur.Value) && o.c05 {
					rc.Violate("c05.suffix", "suffix-shared", "datacenters %s and %s share suffix %s", odc, dc, sv)
				}
			}
			if _, ok := o.suffixes[dc]; !ok {
				o.suffixStep[dc] = c.Step
				o.suffixTime[dc] = time.Now()
			}
			o.suffixes[dc] = string(ch.Cur.Value)
		}
		if isLeaderKey(key) {
			// (i) a campaign succeeds only when no live leader record exists
			if ch.Cur != nil && ch.Prev != nil && o.c03 {
				rc.Violate("c03.campaign", "leader-record-overwritten", "leader record %s overwritten: %q -> %q by node %d", key, ch.Prev.Value, ch.Cur.Value, c.Node)
			}
			if ch.Cur != nil {
				if path.Base(key) == "leader" {
					o.lastElected["global"] = c.Step
					o.electedTime["global"] = time.Now()
				} else {
					o.lastElected[path.Base(key)] = c.Step
					o.electedTime[path.Base(key)] = time.Now()
				}
				o.leaderVal[key] = string(ch.Cur.Value)
				if ch.Cur.Lease != 0 {
					lo := &leaseOwn{node: c.Node, from: c.Step, to: -1}
					o.leases[ch.Cur.Lease] = lo
					o.keyLease[key] = append(o.keyLease[key], lo)
				}
				rc.Extra["campaign_ok"]++
			} else {
				delete(o.leaderVal, key)
				if ch.Prev != nil && ch.Prev.Lease != 0 && (c.Reason == "lease-expire" || c.Reason == "lease-revoke") {
					if lo := o.leases[ch.Prev.Lease]; lo != nil && lo.to < 0 {
						lo.to = c.Step
					}
				}
				rc.Extra["leader_record_gone"]++
			}
			continue
		}
		// (ii) leader-guarded writes: the writer must own the corresponding leader record
		if o.c03 && isGuardedKey(key) && c.Node >= 0 {
			// the put of a member's own dc-location is deliberately unguarded; only deletes are guarded
			if strings.Contains(key, "/dc-location/") && ch.Cur != nil {
				continue
			}
			lk := o.leaderKeyFor(key)
			want, ok := o.leaderVal[lk]
			mine := o.e.memberValue(c.Node)
			if !ok || want != mine {
				rc.Violate("c03.guard", "guarded-write-by-non-owner", "node %d (member %q) changed %s while leader record %s is %q", c.Node, short(mine), key, lk, short(want))
			}
			rc.Extra["guarded_writes"]++
		}
	}
}

func short(s string) string {
	if len(s) > 40 {
		return fmt.Sprintf("%x…", s[:12])
	}
	return s
}

func (e *Env) memberValue(node int) string {
	if node < 0 || node >= len(e.W.Nodes) {
		return ""
	}
	if v, ok := e.memberVals[node]; ok {
		return v
	}
	return ""
}

// monitorGen records, after every scheduler step, the in-memory TSO of every live global allocator when it changed.
func (o *tsoOracle) monitorGen() {
	for _, n := range o.e.W.Nodes {
		if !n.Up || n.Srv == nil {
			continue
		}
		for _, p := range n.Srv.SimTSOManager().SimPeekAll() {
			if p.DC != "global" {
				continue
			}
			g := genAt{step: o.rc.S.Step, logical: p.Logical}
			if !p.Physical.IsZero() {
				g.phys = p.Physical.UnixNano() / int64(time.Millisecond)
			}
			h := o.gen[n.ID]
			if k := len(h); k == 0 || h[k-1].phys != g.phys || h[k-1].logical != g.logical {
				g.prev = -1
				if k > 0 {
					g.prev = o.genSeen[n.ID]
				}
				o.gen[n.ID] = append(h, g)
			}
			o.genSeen[n.ID] = o.rc.S.Step
		}
	}
}

// generatedAfter: a step at which the node's in-memory TSO was certainly still below (phys, logical), i.e. the
// timestamp had not been generated yet (observations may lag, which only makes the answer earlier). -1: unknown.
func (o *tsoOracle) generatedAfter(node int, phys, logical int64, ret int) int {
	h := o.gen[node]
	// the first observation at which the clock had reached (phys, logical); the in-memory clock is reset to zero when
	// the member steps down and restarts from a larger physical time, so the same physical never comes back
	for j := range h {
		if h[j].step > ret {
			break
		}
		if h[j].phys == phys && h[j].logical >= logical {
			return h[j].prev
		}
	}
	return -1
}

// monitorC02: in-memory physical time of every live allocator stays below the stored window.
func (o *tsoOracle) monitorC02() {
	for _, n := range o.e.W.Nodes {
		if !n.Up || n.Srv == nil {
			continue
		}
		for _, p := range n.Srv.SimTSOManager().SimPeekAll() {
			if p.Physical.IsZero() {
				continue
			}
			st, ok := o.stored[p.DC]
			if !ok {
				o.rc.Violate("c02.memory", "memory-without-stored-window", "node %d allocator %s has in-memory time %v but no stored window", n.ID, p.DC, p.Physical.UTC())
				return
			}
			if p.Physical.UnixNano() >= st {
				o.rc.Violate("c02.memory", "memory-not-below-stored-window", "node %d allocator %s: in-memory physical %s >= stored window %s",
					n.ID, p.DC, p.Physical.UTC().Format(time.RFC3339Nano), time.Unix(0, st).UTC().Format(time.RFC3339Nano))
				return
			}
		}
	}
}

// widthClass: a too small suffix width is a known transient while the serving member's in-memory view of the
// dc-locations / max suffix may still be stale (it is refreshed once a minute and at elections); long after the suffix
// was assigned and after the last election of the PD leader and of the allocator it is a different failure.
func (o *tsoOracle) widthClass(r tsResp, dc string) string {
	if r.invAt.IsZero() {
		return "suffix-width-too-small"
	}
	latest := o.suffixTime[dc]
	for _, k := range []string{"global", r.alloc} {
		if t := o.electedTime[k]; t.After(latest) {
			latest = t
		}
	}
	if n := o.e.W.Nodes[r.node]; n.StartedAt.After(latest) {
		latest = n.StartedAt
	}
	if r.invAt.Sub(latest) > 70*time.Second {
		return "suffix-width-still-too-small-after-refresh-interval"
	}
	return "suffix-width-too-small"
}

// observe checks one successful TSO response.
func (o *tsoOracle) observe(r tsResp) {
	rc := o.rc
	maxL := int64(1) << logicalBits
	stride := uint64(1) << r.bits
	r.stride = stride
	if o.c01 {
		if r.logical < 0 || r.logical >= maxL {
			rc.Violate("c01.field", "logical-out-of-range", "%s response physical=%d logical=%d does not fit 18 bits", r.alloc, r.phys, r.logical)
			return
		}
		if r.logical-int64(r.count-1)*int64(stride) < 0 {
			rc.Violate("c01.field", "range-below-zero", "%s response logical=%d count=%d bits=%d: first owned logical is negative", r.alloc, r.logical, r.count, r.bits)
			return
		}
		if r.phys <= 0 {
			rc.Violate("c01.field", "zero-physical", "%s response with physical=%d", r.alloc, r.phys)
			return
		}
	}
	r.hi = compose(r.phys, r.logical)
	r.lo = r.hi - uint64(r.count-1)*stride
	if r.hi > o.maxTS {
		o.maxTS = r.hi
	}
	if o.c02 {
		st, ok := o.stored[r.alloc]
		if !ok || r.phys*int64(time.Millisecond) >= st {
			rc.Violate("c02.grant", "granted-not-below-stored-window", "%s granted physical %d ms but stored window is %d ns (node %d)", r.alloc, r.phys, st, r.node)
			return
		}
	}
	if o.c01 || o.c05 {
		same := o.all[r.alloc]
		// real-time order within one allocator
		if o.c01 {
			rets := o.rets[r.alloc]
			i := sort.SearchInts(rets, r.inv) // first ret >= inv
			if i > 0 {
				if pm := o.prefMax[r.alloc][i-1]; pm >= r.lo {
					// find the witness
					for _, a := range same {
						if a.ret < r.inv && a.hi >= r.lo {
							rc.Violate("c01.order", "later-request-got-smaller-timestamp",
								"%s: request (steps %d-%d, node %d) got [%d.%d count %d] after request (steps %d-%d, node %d) had completed with [%d.%d count %d]",
								r.alloc, r.inv, r.ret, r.node, r.phys, r.logical, r.count, a.inv, a.ret, a.node, a.phys, a.logical, a.count)
							return
						}
					}
				}
			}
			for _, a := range same {
				if a.lo <= r.hi && r.lo <= a.hi && intersects(a, r) {
					note := ""
					if a.bits != r.bits {
						note = fmt.Sprintf(" (the two responses were differentiated with different suffix widths: %d and %d bits)", a.bits, r.bits)
					}
					rc.Violate("c01.unique", "overlapping-ranges", "%s: ranges overlap: [%d.%d count %d] (steps %d-%d node %d) and [%d.%d count %d] (steps %d-%d node %d)%s",
						r.alloc, a.phys, a.logical, a.count, a.inv, a.ret, a.node, r.phys, r.logical, r.count, r.inv, r.ret, r.node, note)
					return
				}
			}
		}
		if o.c05 {
			// the suffix width reported with a timestamp is large enough for every suffix in use (at least its own)
			// every suffix assigned before the request began
			for dc, sv := range o.suffixes {
				if o.suffixStep[dc] >= r.inv {
					continue
				}
				if sfx, err := strconv.Atoi(sv); err == nil && sfx > 0 && (1<<r.bits) <= sfx && dc != r.alloc {
					rc.Violate("c05.suffix", o.widthClass(r, dc), "%s granted [%d.%d count %d] reporting %d suffix bits although suffix %d was assigned to %s at step %d (node %d)", r.alloc, r.phys, r.logical, r.count, r.bits, sfx, dc, o.suffixStep[dc], r.node)
					return
				}
			}
			if sv, ok := o.suffixes[r.alloc]; ok {
				if sfx, err := strconv.Atoi(sv); err == nil && sfx > 0 && (1<<r.bits) <= sfx {
					note := ""
					if n := o.e.W.Nodes[r.node]; n.Srv != nil {
						vm := n.Srv.SimTSOManager().SimMaxSuffix()
						need := 0
						for (1 << need) <= vm {
							need++
						}
						if vm < sfx && int(r.bits) == need {
							note = fmt.Sprintf(" (the serving member's in-memory max-suffix view is %d, below the allocator's own suffix)", vm)
						}
					}
					rc.Violate("c05.suffix", o.widthClass(r, r.alloc), "local %s (suffix %d) granted [%d.%d count %d] reporting %d suffix bits (node %d)%s", r.alloc, sfx, r.phys, r.logical, r.count, r.bits, r.node, note)
					return
				}
			}
		}
		if o.c05 {
			o.checkC05(r)
		}
		o.all[r.alloc] = append(same, r)
		pm := r.hi
		if l := len(o.prefMax[r.alloc]); l > 0 && o.prefMax[r.alloc][l-1] > pm {
			pm = o.prefMax[r.alloc][l-1]
		}
		o.prefMax[r.alloc] = append(o.prefMax[r.alloc], pm)
		o.rets[r.alloc] = append(o.rets[r.alloc], r.ret)
	}
}

func intersects(a, b tsResp) bool {
	if a.stride == b.stride {
		return a.hi%a.stride == b.hi%b.stride
	}
	// different strides: enumerate the smaller set
	if a.count > b.count {
		a, b = b, a
	}
	for k := uint64(0); k < uint64(a.count); k++ {
		v := a.hi - k*a.stride
		if v >= b.lo && v <= b.hi && (b.hi-v)%b.stride == 0 {
			return true
		}
	}
	return false
}

// checkC05: cross-allocator consistency.
func (o *tsoOracle) checkC05(r tsResp) {
	rc := o.rc
	for alloc, rs := range o.all {
		if alloc == r.alloc {
			continue
		}
		for _, a := range rs {
			if a.lo <= r.hi && r.lo <= a.hi && intersects(a, r) {
				note := ""
				if a.bits != r.bits {
					note = " (the two responses were differentiated with different suffix widths)"
				}
				rc.Violate("c05.unique", "equal-timestamps-across-allocators", "%s [%d.%d count %d bits %d] and %s [%d.%d count %d bits %d] share a value%s",
					a.alloc, a.phys, a.logical, a.count, a.bits, r.alloc, r.phys, r.logical, r.count, r.bits, note)
				return
			}
			// a completed before r began
			if a.ret < r.inv {
				if r.alloc == "global" && a.alloc != "global" && a.hi >= r.lo {
					note := ""
					if r.view != nil && !r.view[a.alloc] {
						note = " (" + a.alloc + " was not in the serving member's dc-location view when the global request was sent)"
					}
					rc.Violate("c05.order", "global-not-above-earlier-local", "global(bits=%d) [%d.%d count %d] (steps %d-%d) is not above local %s [%d.%d] that completed at step %d%s",
						r.bits, r.phys, r.logical, r.count, r.inv, r.ret, a.alloc, a.phys, a.logical, a.ret, note)
					return
				}
				if a.alloc == "global" && r.alloc != "global" && a.hi >= r.lo {
					note := ""
					if a.view != nil && !a.view[r.alloc] {
						note = " (" + r.alloc + " was not in the serving member's dc-location view when that global request was sent)"
					} else if o.lastElected[r.alloc] > a.inv {
						note = " (this local allocator was elected at step " + fmt.Sprint(o.lastElected[r.alloc]) + ", after that global request had begun)"
					}
					rc.Violate("c05.order", "local-not-above-earlier-global", "local %s [%d.%d count %d] (steps %d-%d) is not above global(bits=%d) [%d.%d] that completed at step %d%s",
						r.alloc, r.phys, r.logical, r.count, r.inv, r.ret, a.bits, a.phys, a.logical, a.ret, note)
					return
				}
			}
		}
	}
}

// ---------------------------------------------------------------- workload

var tsoCounts = []uint32{1, 1, 1, 2, 7, 100, 1 << 10, 1 << 17, 1<<18 - 1, 1 << 18}

type tsoClientCfg struct {
	nReq     int
	dc       string // "" or "global": global allocator
	maxGap   time.Duration
	bigCount bool
	// pLeader: probability of targeting the node currently believed leader (else random node)
	pLeader float64
}

// tsoClient issues TSO requests over simulated streams and feeds the oracle.
func (e *Env) tsoClient(name string, o *tsoOracle, cfg tsoClientCfg, done *int) {
	s, rc := e.S, e.RC
	e.S.Spawn(-1, name, func() {
		defer func() { *done-- }()
		var stream pdpb.PD_TsoClient
		var target *harness.Node
		var cancel func()
		closeStream := func() {
			if cancel != nil {
				cancel()
			}
			stream, cancel, target = nil, nil, nil
		}
		defer closeStream()
		alloc := cfg.dc
		if alloc == "" {
			alloc = "global"
		}
		for k := 0; k < cfg.nReq && len(rc.Viol) == 0; k++ {
			if stream == nil || s.Choose(10, "tso.reopen") == 0 {
				closeStream()
				if l := e.W.Leader(); l != nil && s.Chance("tso.toleader", cfg.pLeader) {
					target = l
				} else {
					target = e.W.Nodes[s.Choose(len(e.W.Nodes), "tso.node")]
				}
				ctx, c := Ctx(30 * time.Second)
				st, err := e.W.Net.Dial(target.ClientURL).Tso(ctx)
				if err != nil {
					c()
					target = nil
					rc.Extra["tso_err"]++
					simrt.Sleep(100 * time.Millisecond)
					continue
				}
				stream, cancel = st, c
			}
			count := uint32(1 + s.Choose(4, "tso.count.small"))
			if cfg.bigCount && s.Choose(3, "tso.count.big?") == 0 {
				count = tsoCounts[s.Choose(len(tsoCounts), "tso.count")]
			}
			req := &pdpb.TsoRequest{Header: &pdpb.RequestHeader{ClusterId: e.ClusterID}, Count: count, DcLocation: cfg.dc}
			inv := s.Step
			invAt := time.Now()
			node := target.ID
			var view map[string]bool
			if alloc == "global" && target.Srv != nil {
				view = map[string]bool{}
				for dc := range target.Srv.SimTSOManager().GetClusterDCLocations() {
					view[dc] = true
				}
			}
			if err := stream.Send(req); err != nil {
				rc.Extra["tso_err"]++
				closeStream()
				continue
			}
			resp, err := stream.Recv()
			ret := s.Step
			if err != nil {
				rc.Extra["tso_err"]++
				if strings.Contains(err.Error(), "not leader") || strings.Contains(err.Error(), "isn't initialized") {
					rc.Extra["tso_not_leader"]++
				}
				closeStream()
				simrt.Sleep(time.Duration(s.Choose(300, "tso.backoff")) * time.Millisecond)
				continue
			}
			rc.Extra["tso_ok"]++
			if resp.GetCount() != count && o.c01 {
				rc.Violate("c01.field", "count-mismatch", "requested %d timestamps, response says %d", count, resp.GetCount())
				return
			}
			ts := resp.GetTimestamp()
			if e.OnTSO != nil {
				e.OnTSO(node, inv, ret)
			}
			if e.OnTSOResp != nil {
				e.OnTSOResp(node, inv, ret, alloc, ts.GetPhysical(), ts.GetLogical(), ts.GetSuffixBits())
			}
			o.observe(tsResp{alloc: alloc, node: node, phys: ts.GetPhysical(), logical: ts.GetLogical(), bits: ts.GetSuffixBits(), count: count, inv: inv, invAt: invAt, ret: ret, view: view})
			if cfg.maxGap > 0 {
				simrt.Sleep(time.Duration(s.Choose(int(cfg.maxGap/time.Millisecond)+1, "tso.gap")) * time.Millisecond)
			} else {
				simrt.Yield("tso.client")
			}
		}
	})
}

// resetTSAdmin issues manual timestamp resets (accepted, too small, too far) on the serving leader.
func (e *Env) resetTSAdmin(o *tsoOracle, n int, done *int) {
	s, rc := e.S, e.RC
	s.Spawn(-1, "reset-ts-admin", func() {
		defer func() { *done-- }()
		for k := 0; k < n && len(rc.Viol) == 0; k++ {
			simrt.Sleep(time.Duration(50+s.Choose(3000, "rst.gap")) * time.Millisecond)
			l := e.W.Leader()
			if l == nil || o.maxTS == 0 {
				continue
			}
			phys := int64(o.maxTS >> logicalBits)
			logical := int64(o.maxTS & (1<<logicalBits - 1))
			var ts uint64
			kind := s.Choose(7, "rst.kind")
			switch kind {
			case 0:
				ts = compose(phys, logical+1+int64(s.Choose(1000, "rst.l")))
			case 1:
				ts = compose(phys+int64(1+s.Choose(50, "rst.ms")), 0)
			case 2:
				ts = compose(phys+int64(1000+s.Choose(5000, "rst.s")), int64(s.Choose(1<<18, "rst.l2")))
			case 3:
				ts = compose(phys+int64(time.Hour/time.Millisecond)*int64(1+s.Choose(20, "rst.h")), 0)
			case 4:
				ts = compose(phys-int64(1+s.Choose(10000, "rst.back")), 0) // too small: rejected
			case 5:
				ts = compose(phys+int64(25*time.Hour/time.Millisecond), 0) // too far: rejected
			case 6:
				ts = compose(phys, logical) // equal: rejected
			}
			res := make(chan error, 1)
			srv := l.Srv
			s.Spawn(l.ID, "reset-ts", func() { res <- srv.GetHandler().ResetTS(ts) })
			var err error
			select {
			case err = <-res:
				simrt.Resume()
			case <-time.After(10 * time.Second):
				simrt.Resume()
				err = fmt.Errorf("timeout")
			}
			if err == nil {
				rc.Extra["reset_ts_ok"]++
				if ts > o.maxTS && false {
					o.maxTS = ts
				}
			} else {
				rc.Extra["reset_ts_rejected"]++
			}
			rc.Note("reset-ts kind=%d -> %v @%v", kind, err == nil, s.Elapsed().Round(time.Millisecond))
		}
	})
}

// trackMembers records member values as nodes start.
func (e *Env) trackMembers() {
	e.memberVals = map[int]string{}
	prev := e.OnStart
	e.OnStart = func(n *harness.Node) {
		e.memberVals[n.ID] = MemberValueOf(n)
		if prev != nil {
			prev(n)
		}
	}
}
