package e1

import (
	"encoding/json"
	"fmt"
	"strings"
	"time"

	"github.com/tikv/pd/server"
	"github.com/tikv/pd/server/config"

	"pdsim/engine/core"
	"pdsim/simrt"
)

// C18: dynamic configuration changes are validated, atomic and durable.

func cfgDigest(srv *server.Server) string {
	sc := srv.GetScheduleConfig()
	sc.SchedulersPayload = nil
	// documented reload normalisation: the deprecated trace-region-flow flag is migrated into
	// flow-round-by-digit and cleared on reload, so it is not part of the compared configuration
	pds := srv.GetPDServerConfig()
	pds.TraceRegionFlow = false
	b, _ := json.Marshal(map[string]interface{}{
		"schedule":    sc,
		"replication": srv.GetReplicationConfig(),
		"pdserver":    pds,
		"labelprop":   srv.GetLabelProperty(),
		"version":     srv.GetClusterVersion().String(),
		"replmode":    srv.GetReplicationModeConfig(),
	})
	return string(b)
}

type cfgOp struct {
	name    string
	invalid string // non-empty: the value is outside its domain and must never be accepted
	apply   func(srv *server.Server) error
}

// genCfgOp draws one configuration update (valid or out of domain).
func genCfgOp(rc *core.RunCtx, srv *server.Server) cfgOp {
	s := rc.S
	switch s.Choose(7, "cfg.kind") {
	case 0, 1:
		c := *srv.GetScheduleConfig()
		op := cfgOp{name: "schedule"}
		switch s.Choose(11, "cfg.sched") {
		case 0:
			c.LeaderScheduleLimit = uint64(1 + s.Choose(64, "v"))
		case 1:
			c.RegionScheduleLimit = uint64(1 + s.Choose(4096, "v"))
		case 2:
			c.MaxSnapshotCount = uint64(1 + s.Choose(16, "v"))
			c.MaxStoreDownTime.Duration = time.Duration(1+s.Choose(120, "v2")) * time.Minute
		case 3:
			c.LowSpaceRatio, c.HighSpaceRatio = 0.9, 0.5+float64(s.Choose(30, "v"))/100
			c.TolerantSizeRatio = float64(s.Choose(50, "v2")) / 10
		case 4:
			c.LowSpaceRatio = 1.0 + float64(1+s.Choose(10, "v"))/10
			op.invalid = "low-space-ratio above 1"
		case 5:
			c.HighSpaceRatio = -0.1 * float64(1+s.Choose(5, "v"))
			op.invalid = "high-space-ratio below 0"
		case 6:
			c.LowSpaceRatio, c.HighSpaceRatio = 0.6, 0.6+float64(s.Choose(3, "v"))/10
			op.invalid = "low-space-ratio <= high-space-ratio"
		case 7:
			c.TolerantSizeRatio = -float64(1 + s.Choose(5, "v"))
			op.invalid = "negative tolerant-size-ratio"
		case 8:
			c.Schedulers = append(append(config.SchedulerConfigs{}, c.Schedulers...), config.SchedulerConfig{Type: fmt.Sprintf("no-such-scheduler-%d", s.Choose(3, "v"))})
			op.invalid = "unregistered scheduler type"
		case 9, 10:
			// a default scheduler disabled / enabled again, or given arguments (valid; must survive a reload as accepted)
			c.Schedulers = append(config.SchedulerConfigs{}, c.Schedulers...)
			if len(c.Schedulers) > 0 {
				i := s.Choose(len(c.Schedulers), "v")
				sc := c.Schedulers[i]
				if s.Choose(3, "v2") == 0 {
					sc.Args = []string{"sim"}
				} else {
					sc.Disable = !sc.Disable
				}
				c.Schedulers[i] = sc
			}
		}
		op.name = "schedule " + op.invalid
		op.apply = func(srv *server.Server) error { return srv.SetScheduleConfig(c) }
		return op
	case 2:
		c := *srv.GetReplicationConfig()
		op := cfgOp{name: "replication"}
		switch s.Choose(5, "cfg.repl") {
		case 0:
			c.MaxReplicas = uint64(1 + s.Choose(5, "v"))
		case 1:
			c.LocationLabels = []string{"zone", "rack", "host"}[:1+s.Choose(3, "v")]
			c.IsolationLevel = ""
		case 2:
			c.LocationLabels = []string{"zone", "rack"}
			c.IsolationLevel = []string{"zone", "rack"}[s.Choose(2, "v")]
		case 3:
			// not a location label: a label that is simply absent, and near misses of a present one (letter case,
			// prefix, surrounding blank) that a looser comparison would let through
			c.LocationLabels = []string{"zone", "rack"}
			c.IsolationLevel = []string{"host", "Zone", "RACK", "zon", "rack ", " zone", "zone,rack"}[s.Choose(7, "v")]
			op.invalid = "isolation level that is not a location label"
		case 4:
			c.LocationLabels = nil
			c.IsolationLevel = []string{"zone", "rack"}[s.Choose(2, "v")]
			op.invalid = "isolation level without any location label"
		}
		op.name = "replication " + op.invalid
		op.apply = func(srv *server.Server) error { return srv.SetReplicationConfig(c) }
		return op
	case 3:
		c := *srv.GetPDServerConfig()
		op := cfgOp{name: "pdserver"}
		if s.Choose(3, "cfg.pds") == 0 {
			c.FlowRoundByDigit = -1 - s.Choose(5, "v")
			op.invalid = "negative flow-round-by-digit"
		} else {
			c.FlowRoundByDigit = s.Choose(6, "v")
			c.KeyType = []string{"table", "raw", "txn"}[s.Choose(3, "v2")]
			c.MaxResetTSGap.Duration = time.Duration(1+s.Choose(48, "v3")) * time.Hour
		}
		op.name = "pdserver " + op.invalid
		op.apply = func(srv *server.Server) error { return srv.SetPDServerConfig(c) }
		return op
	case 4:
		typ, k, v := "reject-leader", []string{"zone", "host"}[s.Choose(2, "v")], fmt.Sprintf("v%d", s.Choose(3, "v2"))
		if s.Choose(3, "cfg.lp") == 0 {
			return cfgOp{name: "label-property delete", apply: func(srv *server.Server) error { return srv.DeleteLabelProperty(typ, k, v) }}
		}
		return cfgOp{name: "label-property set", apply: func(srv *server.Server) error { return srv.SetLabelProperty(typ, k, v) }}
	case 5:
		if s.Choose(4, "cfg.ver") == 0 {
			return cfgOp{name: "cluster-version garbage", invalid: "unparsable version", apply: func(srv *server.Server) error { return srv.SetClusterVersion("not.a.version") }}
		}
		v := fmt.Sprintf("%d.%d.%d", 4+s.Choose(3, "v"), s.Choose(3, "v2"), s.Choose(10, "v3"))
		return cfgOp{name: "cluster-version " + v, apply: func(srv *server.Server) error { return srv.SetClusterVersion(v) }}
	default:
		c := *srv.GetReplicationModeConfig()
		op := cfgOp{name: "replication-mode"}
		if s.Choose(4, "cfg.rm") == 0 {
			c.ReplicationMode = "no-such-mode"
			op.invalid = "unknown replication mode"
		} else {
			c.ReplicationMode = "majority"
			c.DRAutoSync.WaitStoreTimeout.Duration = time.Duration(30+s.Choose(300, "v")) * time.Second
		}
		op.name = "replication-mode " + op.invalid
		op.apply = func(srv *server.Server) error { return srv.SetReplicationModeConfig(c) }
		return op
	}
}

const c18Group = 12

func c18(rc *core.RunCtx) {
	s := rc.S
	e := Setup(rc, Opts{MinNodes: 1, MaxNodes: 1})
	e.trackMembers()
	if !e.StartAll() {
		return
	}
	l := e.WaitLeader(20 * time.Second)
	if l == nil {
		rc.Anomaly("liveness: no leader")
		return
	}
	if err := e.Bootstrap(l); err != nil {
		rc.Anomaly("bootstrap failed: %v", err)
		return
	}
	nOps := 2 + rc.Knob("ops", 8)
	// fault plan: the k-th storage write of configuration data fails (k = 0: none); clean or unknown outcome
	k := rc.Run % c18Group
	failMode := "before"
	if rc.Mode == "enum-unknown" {
		failMode = "after"
	}
	rc.Knobs["fail_config_write_no"] = k
	rc.Knobs["fail_mode"] = failMode
	e.W.Etcd.FailKeyFilter = func(key string) bool { return strings.HasSuffix(key, "/config") }
	e.W.Etcd.FailNthWrite(k, failMode)
	run := func(f func() error) (err error) {
		res := make(chan error, 1)
		s.Spawn(l.ID, "config-update", func() { res <- f() })
		select {
		case err = <-res:
			simrt.Resume()
		case <-time.After(20 * time.Second):
			simrt.Resume()
			err = fmt.Errorf("timeout")
		}
		return err
	}
	lastAccepted := ""
	maybe := "" // digest that may have been stored by an unknown-outcome write
	accepted, rejected, failedByFault := 0, 0, 0
	for i := 0; i < nOps && len(rc.Viol) == 0; i++ {
		srv := l.Srv
		op := genCfgOp(rc, srv)
		before := cfgDigest(srv)
		writesBefore := e.W.Etcd.WritesSeen()
		err := run(func() error { return op.apply(srv) })
		after := cfgDigest(srv)
		injected := err != nil && strings.Contains(err.Error(), "injected")
		switch {
		case err == nil && op.invalid != "":
			rc.Violate("c18.validate", "out-of-domain-value-accepted", "update %q (%s) was accepted", op.name, op.invalid)
		case err != nil && after != before:
			rc.Violate("c18.atomic", "rejected-update-changed-served-config", "update %q was rejected (%v) but the served configuration changed:\n before %s\n after  %s", op.name, err, before, after)
		case err == nil:
			accepted++
			lastAccepted = after
			maybe = ""
		default:
			rejected++
			if injected {
				failedByFault++
				if failMode == "after" && e.W.Etcd.WritesSeen() > writesBefore {
					// applied although reported as failed: a reload may legitimately see the new value
					maybe = "unknown"
				}
			}
		}
		rc.Note("%s -> %v", op.name, err == nil)
		simrt.Sleep(time.Duration(s.Choose(200, "cfg.gap")) * time.Millisecond)
	}
	if len(rc.Viol) > 0 {
		return
	}
	e.W.Etcd.FailNthWrite(0, "")
	served := cfgDigest(l.Srv)
	// a newly elected leader reloads what was accepted
	if accepted > 0 {
		l.Crash()
		simrt.Sleep(500 * time.Millisecond)
		if err := l.Start(); err != nil {
			rc.Anomaly("restart failed: %v", err)
			return
		}
		nl := e.WaitLeader(30 * time.Second)
		if nl == nil {
			rc.Anomaly("liveness: no leader after restart")
			return
		}
		reloaded := cfgDigest(nl.Srv)
		if reloaded != served && maybe == "" {
			rc.Violate("c18.durable", "reloaded-config-differs-from-accepted", "a new leader reloaded a configuration different from the one accepted and served:\n served   %s\n reloaded %s", served, reloaded)
			return
		}
		rc.Extra["reload_checked"]++
	}
	_ = lastAccepted
	rc.Nontrivial = accepted > 0 && (rejected > 0 || k > 0)
	rc.Note("ops=%d accepted=%d rejected=%d failed-by-storage-fault=%d fail_at=%d(%s)", nOps, accepted, rejected, failedByFault, k, failMode)
	rc.State(fmt.Sprintf("acc=%d rej=%d fault=%d", min(accepted, 6), min(rejected, 6), failedByFault))
}

func init() {
	core.Register(&core.Profile{
		Property: "C18", Level: "fault_enumeration",
		Modes:    []string{"enum", "enum", "enum", "enum-unknown"},
		SeedOf:   func(run int) int { return run / c18Group },
		Body:     c18,
		MaxSteps: 300000, MaxTime: 5 * time.Minute,
		QuickBudget: 45 * time.Second, ThoroughBudget: 10 * time.Minute,
		Rule: "groups of 12 runs share one seeded sequence of 2-9 configuration updates (schedule, replication, pd-server, label-property, cluster-version, replication-mode; valid and out-of-domain values) applied through the real Server setters on a bootstrapped leader; run k of a group makes the k-th storage write of configuration data fail (k=0: none; clean failure, or in 1/4 of the groups applied-but-reported-failed). Oracles per update: out-of-domain never accepted; rejected => served configuration JSON unchanged; at the end the leader is crashed and restarted and the configuration reloaded by the new leader must equal the last served one. non-trivial = at least one accepted update and (a rejected update or an injected storage failure)",
		Real: append([]string{"server.Server config setters", "config.PersistOptions Persist/Reload", "core.Storage SaveConfig/LoadConfig"}, realE1...), Stub: append([]string{"server/api HTTP handlers (the Server setters they call are driven directly)"}, stubE1...),
	})
}
