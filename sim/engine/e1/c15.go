package e1

import (
	"encoding/json"
	"fmt"
	"math"
	"strconv"
	"strings"
	"time"

	"github.com/anishathalye/porcupine"
	"github.com/pingcap/kvproto/pkg/metapb"
	"github.com/pingcap/kvproto/pkg/pdpb"

	"pdsim/engine/core"
	"pdsim/harness"
	"pdsim/simetcd"
	"pdsim/simrt"
)

// Bootstrap bootstraps the cluster through the leader's real Bootstrap handler.
func (e *Env) Bootstrap(l *harness.Node) error {
	ctx, cancel := Ctx(10 * time.Second)
	defer cancel()
	req := &pdpb.BootstrapRequest{
		Header: &pdpb.RequestHeader{ClusterId: e.ClusterID},
		Store:  &metapb.Store{Id: 1, Address: "tikv1:20160", Version: "5.0.0"},
		Region: &metapb.Region{Id: 1001, RegionEpoch: &metapb.RegionEpoch{ConfVer: 1, Version: 1}, Peers: []*metapb.Peer{{Id: 1002, StoreId: 1}}},
	}
	resp, err := e.W.Net.Dial(l.ClientURL).Bootstrap(ctx, req)
	if err != nil {
		return err
	}
	if resp.GetHeader().GetError() != nil {
		return fmt.Errorf("%v", resp.GetHeader().GetError())
	}
	return nil
}

type gcOp struct {
	get bool
	v   uint64
}
type gcOut struct {
	v       uint64
	unknown bool
}

// max-register model; an operation whose outcome is unknown may or may not have been applied
var gcNDModel = porcupine.NondeterministicModel{
	Init: func() []interface{} { return []interface{}{uint64(0)} },
	Step: func(state, input, output interface{}) []interface{} {
		s := state.(uint64)
		in := input.(gcOp)
		out := output.(gcOut)
		if in.get {
			if out.unknown || out.v == s {
				return []interface{}{s}
			}
			return nil
		}
		ns := s
		if in.v > s {
			ns = in.v
		}
		if out.unknown {
			if ns == s {
				return []interface{}{s}
			}
			return []interface{}{s, ns}
		}
		if out.v == ns {
			return []interface{}{ns}
		}
		return nil
	},
	Equal: func(a, b interface{}) bool { return a.(uint64) == b.(uint64) },
	DescribeOperation: func(input, output interface{}) string {
		in, out := input.(gcOp), output.(gcOut)
		if in.get {
			return fmt.Sprintf("get -> %d", out.v)
		}
		if out.unknown {
			return fmt.Sprintf("update(%d) -> ?", in.v)
		}
		return fmt.Sprintf("update(%d) -> %d", in.v, out.v)
	},
}

var gcModel = gcNDModel.ToModel()

type ssp struct {
	ServiceID string `json:"service_id"`
	ExpiredAt int64  `json:"expired_at"`
	SafePoint uint64 `json:"safe_point"`
}

func c15(rc *core.RunCtx) {
	s := rc.S
	faults := rc.Mode == "faults"
	e := Setup(rc, Opts{MinNodes: 1, MaxNodes: 2, Faults: false})
	e.trackMembers()
	// the stored cluster safe point never decreases (acknowledged or not: there is a single key and a max-register)
	var storedMax uint64
	haveStored := false
	e.W.Etcd.OnCommit = append(e.W.Etcd.OnCommit, func(c *simetcd.Commit) {
		for _, ch := range c.Changes {
			if !strings.HasSuffix(ch.Key, "/gc/safe_point") || ch.Cur == nil {
				continue
			}
			v, err := strconv.ParseUint(string(ch.Cur.Value), 16, 64)
			if err != nil {
				rc.Violate("c15.stored", "garbage", "gc safe point stored as %q", ch.Cur.Value)
				return
			}
			rc.Extra["safepoint_saves"]++
			if haveStored && v < storedMax {
				rc.Violate("c15.stored", "stored-safe-point-decreased", "stored GC safe point went back from %d to %d (node %d)", storedMax, v, c.Node)
				return
			}
			storedMax, haveStored = v, true
		}
	})
	if !e.StartAll() {
		return
	}
	l := e.WaitLeader(20 * time.Second)
	if l == nil {
		rc.Anomaly("liveness: no leader")
		return
	}
	if err := e.Bootstrap(l); err != nil {
		rc.Anomaly("bootstrap failed: %v", err)
		return
	}
	if faults {
		// clean storage failures only: an update either applied and acknowledged, or failed
		f := &e.W.Etcd.Faults
		f.Enabled = true
		f.PErrBefore = rc.KnobF("etcd_err_before", 0.02, 0.1)
		f.PDelay = rc.KnobF("etcd_delay", 0, 0.1)
		f.MaxDelay = rc.KnobD("etcd_max_delay", 5*time.Millisecond, 200*time.Millisecond)
		s.SetFreezeKnobs(rc.KnobF("p_freeze", 0, 0.01), 200*time.Millisecond)
	}
	nClients := 2 + rc.Knob("clients", 4)
	nOps := 3 + rc.Knob("ops", 6)
	valRange := 5 + rc.Knob("val_range", 3)*20
	var hist []porcupine.Operation
	running := nClients
	uniq := uint64(0)
	for c := 0; c < nClients; c++ {
		c := c
		s.Spawn(-1, fmt.Sprintf("gc-client-%d", c), func() {
			defer func() { running-- }()
			cli := e.W.Net.Dial(l.ClientURL)
			for k := 0; k < nOps && len(rc.Viol) == 0; k++ {
				ctx, cancel := Ctx(5 * time.Second)
				hdr := &pdpb.RequestHeader{ClusterId: e.ClusterID}
				if s.Choose(4, "gc.get?") == 0 {
					inv := s.Step
					r, err := cli.GetGCSafePoint(ctx, &pdpb.GetGCSafePointRequest{Header: hdr})
					if err == nil && r.GetHeader().GetError() == nil {
						hist = append(hist, porcupine.Operation{ClientId: c, Input: gcOp{get: true}, Call: int64(inv), Output: gcOut{v: r.GetSafePoint()}, Return: int64(s.Step)})
					}
				} else {
					// unique values so that every read is attributable to one write
					uniq++
					v := uint64(s.Choose(valRange, "gc.v"))*1000 + uniq
					inv := s.Step
					r, err := cli.UpdateGCSafePoint(ctx, &pdpb.UpdateGCSafePointRequest{Header: hdr, SafePoint: v})
					if err == nil && r.GetHeader().GetError() == nil {
						rc.Extra["update_ok"]++
						hist = append(hist, porcupine.Operation{ClientId: c, Input: gcOp{v: v}, Call: int64(inv), Output: gcOut{v: r.GetNewSafePoint()}, Return: int64(s.Step)})
					} else {
						rc.Extra["update_failed"]++
						// outcome unknown: it may take effect at any later time
						hist = append(hist, porcupine.Operation{ClientId: c, Input: gcOp{v: v}, Call: int64(inv), Output: gcOut{unknown: true}, Return: math.MaxInt64 / 2})
					}
				}
				cancel()
				if s.Choose(2, "gc.gap?") == 0 {
					simrt.Sleep(time.Duration(s.Choose(20, "gc.gap")) * time.Millisecond)
				}
			}
		})
	}
	// service safe points: one sequential client, checked operation by operation against the stored entries
	running++
	s.Spawn(-1, "service-gc-client", func() {
		defer func() { running-- }()
		c15Service(rc, e, l)
	})
	for running > 0 && len(rc.Viol) == 0 {
		simrt.Sleep(20 * time.Millisecond)
	}
	if len(rc.Viol) > 0 {
		return
	}
	// every response reports a value at least as large as every value acknowledged before the request began,
	// and the whole history is linearizable against a max-register
	res := porcupine.CheckOperationsTimeout(gcModel, hist, 20*time.Second)
	rc.Extra["histories_checked"]++
	switch res {
	case porcupine.Illegal:
		var b strings.Builder
		for _, op := range hist {
			fmt.Fprintf(&b, "[c%d %d-%d %s] ", op.ClientId, op.Call, op.Return, gcModel.DescribeOperation(op.Input, op.Output))
		}
		rc.Violate("c15.linearizable", "not-a-max-register", "GC safe point history is not linearizable against a max-register: %s", b.String())
	case porcupine.Unknown:
		rc.Extra["porcupine_inconclusive"]++
	}
	rc.Nontrivial = rc.Extra["update_ok"] > 1 && nClients > 1
	rc.Note("clients=%d ops=%d updates_ok=%d failed=%d saves=%d service_ops=%d history=%d", nClients, nOps, rc.Extra["update_ok"], rc.Extra["update_failed"], rc.Extra["safepoint_saves"], rc.Extra["service_ops"], len(hist))
	rc.State(fmt.Sprintf("saves=%d", min(rc.Extra["safepoint_saves"], 12)))
}

func c15Service(rc *core.RunCtx, e *Env, l *harness.Node) {
	s := rc.S
	cli := e.W.Net.Dial(l.ClientURL)
	prefix := e.RootPath + "/gc/safe_point/service/"
	load := func() map[string]ssp {
		m := map[string]ssp{}
		for _, kv := range e.W.Etcd.Snapshot(prefix) {
			var x ssp
			if json.Unmarshal(kv.Value, &x) == nil {
				m[strings.TrimPrefix(kv.Key, prefix)] = x
			}
		}
		return m
	}
	services := []string{"gc_worker", "br", "cdc", "lightning"}
	n := 5 + s.Choose(20, "svc.n")
	for k := 0; k < n && len(rc.Viol) == 0; k++ {
		id := services[s.Choose(len(services), "svc.id")]
		ttl := int64(s.Choose(8, "svc.ttl")) - 1 // -1..6 seconds
		switch s.Choose(8, "svc.inf") {
		case 0:
			ttl = math.MaxInt64
		case 1:
			// lifetimes near the end of the representable range
			ttl = []int64{math.MaxInt64 - 1, math.MaxInt64 - time.Now().Unix() + int64(s.Choose(5, "svc.edge")) - 2, 1 << 62}[s.Choose(3, "svc.huge")]
		}
		sp := uint64(s.Choose(40, "svc.sp"))
		before := load()
		nowBefore := time.Now().Unix()
		ctx, cancel := Ctx(5 * time.Second)
		r, err := cli.UpdateServiceGCSafePoint(ctx, &pdpb.UpdateServiceGCSafePointRequest{Header: &pdpb.RequestHeader{ClusterId: e.ClusterID}, ServiceId: []byte(id), TTL: ttl, SafePoint: sp})
		cancel()
		if err != nil || r.GetHeader().GetError() != nil {
			rc.Extra["service_failed"]++
			simrt.Sleep(10 * time.Millisecond)
			continue
		}
		rc.Extra["service_ops"]++
		after := load()
		now := time.Now().Unix()
		// PD judges expiry by its TSO clock, which lags the wall clock by at most the update interval and, after a leader
		// (re-)election, runs ahead of it by up to the TSO save interval until the wall clock has caught up: bracket it
		lo, hi := nowBefore-2, now+2
		for _, n := range e.W.Nodes {
			if n.Up && n.Srv != nil {
				for _, p := range n.Srv.SimTSOManager().SimPeekAll() {
					if p.DC == "global" && !p.Physical.IsZero() && p.Physical.Unix()+2 > hi {
						hi = p.Physical.Unix() + 2
					}
				}
			}
		}
		// the collector's own entry always exists with unlimited lifetime
		if g, ok := after["gc_worker"]; !ok || g.ExpiredAt != math.MaxInt64 {
			rc.Violate("c15.service", "gc-worker-entry-missing-or-finite", "after update(%s ttl=%d sp=%d) gc_worker entry is %+v (present=%v)", id, ttl, sp, g, ok)
			return
		}
		// reported minimum is never above a live registered service
		for sid, x := range after {
			if x.ExpiredAt > hi && r.GetMinSafePoint() > x.SafePoint {
				rc.Violate("c15.service", "min-above-live-service", "reported min %d (%s) is above live service %s safe point %d", r.GetMinSafePoint(), r.GetServiceId(), sid, x.SafePoint)
				return
			}
			// expired registrations disappear
			// (the removal of an expired entry is best effort: under injected storage failures it may survive one more round)
			if x.ExpiredAt < lo && !e.W.Etcd.Faults.Enabled {
				rc.Violate("c15.service", "expired-entry-kept", "service %s expired at %d (now %d) is still stored after an update", sid, x.ExpiredAt, now)
				return
			}
		}
		if ttl <= 0 && id != "gc_worker" {
			if _, ok := after[id]; ok {
				rc.Violate("c15.service", "non-positive-ttl-kept", "service %s registered with ttl %d is still stored", id, ttl)
				return
			}
		}
		// a registration below the current minimum is not recorded
		if ttl > 0 {
			minBefore := uint64(math.MaxUint64)
			for _, x := range before {
				if x.ExpiredAt > hi && x.SafePoint < minBefore {
					minBefore = x.SafePoint
				}
			}
			anyNearExpiry := false
			for _, x := range before {
				if x.ExpiredAt >= lo && x.ExpiredAt <= hi {
					anyNearExpiry = true
				}
			}
			if minBefore != math.MaxUint64 && sp < minBefore && !anyNearExpiry {
				if a, ok := after[id]; ok {
					if b, had := before[id]; !had || b != a {
						rc.Violate("c15.service", "below-min-recorded", "service %s registered safe point %d below the minimum %d and it was recorded as %+v", id, sp, minBefore, a)
						return
					}
				}
			}
			if sp >= minBefore && minBefore != math.MaxUint64 && !anyNearExpiry {
				if a, ok := after[id]; !ok || a.SafePoint != sp {
					rc.Violate("c15.service", "valid-registration-lost", "service %s registered safe point %d >= min %d but stored entry is %+v (present=%v)", id, sp, minBefore, a, ok)
					return
				}
				// ... and it lives at least as long as asked for (a lifetime that cannot be represented means forever)
				want := int64(math.MaxInt64)
				if ttl < math.MaxInt64-lo {
					want = lo + ttl
				}
				if a := after[id]; a.ExpiredAt < want && id != "gc_worker" {
					rc.Violate("c15.service", "registration-expires-early", "service %s registered with ttl %d at about %d but its stored expiry is %d", id, ttl, lo, a.ExpiredAt)
					return
				}
			}
		}
		simrt.Sleep(time.Duration(s.Choose(2500, "svc.gap")) * time.Millisecond)
	}
}

func init() {
	core.Register(&core.Profile{
		Property: "C15", Level: "exploration",
		Modes:    []string{"faultfree", "faults"},
		Body:     c15,
		MaxSteps: 400000, MaxTime: 5 * time.Minute,
		QuickBudget: 45 * time.Second, ThoroughBudget: 10 * time.Minute,
		Rule: "one run = a bootstrapped real PD leader, 2-5 concurrent clients issuing UpdateGCSafePoint (unique values) and GetGCSafePoint through the real handlers, interleaved at the granularity of individual storage reads/writes (optionally with clean storage failures, delays and per-task freezes), plus one sequential client registering/renewing/removing/expiring service safe points; history checked with porcupine against a max-register (failed updates = maybe applied, at any later time); commit hook: stored safe point never decreases; service entries compared with the stored entries after each operation. non-trivial = >1 acknowledged update and >1 client",
		Real: append([]string{"grpc_service.go GC handlers", "core.Storage GC safe point code"}, realE1...), Stub: stubE1,
	})
}
