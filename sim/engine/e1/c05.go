package e1

import (
	"fmt"
	"strconv"
	"time"

	"pdsim/engine/core"
	"pdsim/simrt"
)

// C05: local and global timestamps are mutually consistent.

func c05(rc *core.RunCtx) { c05Body(rc, "c05") }

// c05Body: prop "c05" checks the cross-allocator history; prop "c03" runs the same world (members of one
// dc-location contend for its Local TSO allocator leadership) under the C03 commit-level ownership oracles only.
func c05Body(rc *core.RunCtx, prop string) {
	s := rc.S
	faults := rc.Mode == "faults" || prop == "c03"
	nDC := 1 + rc.Knob("dcs", 3)
	if prop == "c03" && nDC == 3 {
		nDC = 1 // two or three members of one dc-location must contend for the same allocator leadership
	}
	dcs := []string{"dc1", "dc2", "dc3"}[:nDC]
	e := Setup(rc, Opts{MinNodes: 3, MaxNodes: 3, Faults: faults, LocalTSO: true, DCs: dcs})
	e.trackMembers()
	o := newTSOOracle(rc, e)
	if prop == "c03" {
		o.c03 = true
	} else {
		o.c05 = true
		o.c01 = true
	}
	// a datacenter may join later: its member starts after the others
	late := -1
	if nDC > 1 && rc.Knob("late_join", 2) == 1 {
		late = 2
	}
	for _, n := range e.W.Nodes {
		if n.ID == late {
			continue
		}
		if err := n.Start(); err != nil {
			rc.Note("start failed: %v", err)
			return
		}
	}
	for _, n := range e.W.Nodes {
		if n.Srv != nil {
			e.ClusterID = n.Srv.ClusterID()
			e.RootPath = "/pd/" + strconv.FormatUint(e.ClusterID, 10)
		}
	}
	if e.WaitLeader(20*time.Second) == nil {
		rc.Anomaly("liveness: no leader")
		return
	}
	if faults {
		e.StartNemesis([]string{"crash", "etcd-partition", "etcd-leader-move", "net-cut", "resign"}, 6*time.Second)
	}
	nReq := 6 + rc.Knob("requests", 20)
	gap := rc.KnobD("client_gap", 20*time.Millisecond, 300*time.Millisecond, 1500*time.Millisecond)
	running := 0
	for i, dc := range dcs {
		for c := 0; c < 1+rc.Knob("local_clients_"+dc, 2); c++ {
			running++
			e.tsoClient(fmt.Sprintf("local-%s-%d", dc, c), o, tsoClientCfg{nReq: nReq, dc: dc, maxGap: gap, bigCount: i == 0, pLeader: 0.3}, &running)
		}
	}
	for c := 0; c < 1+rc.Knob("global_clients", 2); c++ {
		running++
		e.tsoClient(fmt.Sprintf("global-%d", c), o, tsoClientCfg{nReq: nReq, maxGap: gap, pLeader: 0.8}, &running)
	}
	if late >= 0 {
		running++
		s.Spawn(-1, "late-join", func() {
			defer func() { running-- }()
			simrt.Sleep(time.Duration(2000+s.Choose(8000, "late.at")) * time.Millisecond)
			if err := e.W.Nodes[late].Start(); err == nil {
				rc.Extra["dc_joined_late"]++
			}
		})
	}
	for running > 0 && len(rc.Viol) == 0 {
		simrt.Sleep(100 * time.Millisecond)
	}
	if len(rc.Viol) > 0 {
		return
	}
	// a quiet tail longer than the dc-location refresh interval, then a few more requests: whatever was stale right
	// after an election or a join must have been refreshed by now
	if prop == "c05" && rc.Knob("long_tail", 3) == 1 {
		e.Quiesce() // faults stop here
		simrt.Sleep(75 * time.Second)
		for _, dc := range dcs {
			running++
			e.tsoClient("tail-"+dc, o, tsoClientCfg{nReq: 3, dc: dc, maxGap: gap, pLeader: 0.3}, &running)
		}
		running++
		e.tsoClient("tail-global", o, tsoClientCfg{nReq: 3, maxGap: gap, pLeader: 0.8}, &running)
		for running > 0 && len(rc.Viol) == 0 {
			simrt.Sleep(100 * time.Millisecond)
		}
		rc.Extra["long_tail"]++
		if len(rc.Viol) > 0 {
			return
		}
	}
	e.Quiesce()
	// suffix width reported with a timestamp is large enough for every suffix in use
	maxSuffix := 0
	for _, sv := range o.suffixes {
		if v, err := strconv.Atoi(sv); err == nil && v > maxSuffix {
			maxSuffix = v
		}
	}
	locals := 0
	for alloc, rs := range o.all {
		if alloc != "global" {
			locals += len(rs)
		}
	}
	rc.Extra["local_ok"] += locals
	rc.Extra["global_ok"] += len(o.all["global"])
	rc.Nontrivial = locals > 0 && len(o.all["global"]) > 0
	rc.Note("dcs=%d late=%d local_ok=%d global_ok=%d tso_err=%d suffixes=%v crashes=%d nemesis=%v", nDC, late, locals, len(o.all["global"]), rc.Extra["tso_err"], o.suffixes, e.Crashes, e.NemKinds)
	rc.State(fmt.Sprintf("dcs=%d l=%d g=%d", nDC, min(locals/5, 6), min(len(o.all["global"])/5, 6)))
}

func init() {
	core.Register(&core.Profile{
		Property: "C05", Level: "exploration",
		Modes:    []string{"faultfree", "faults"},
		Body:     c05,
		MaxSteps: 1500000, MaxTime: 4 * time.Minute,
		QuickBudget: 60 * time.Second, ThoroughBudget: 15 * time.Minute,
		Rule: "one run = 3 real PD members in 1-3 dc-locations with local TSO enabled (real local-allocator election loops, real global estimate/SyncMaxTS/differentiate protocol over the simulated network), optionally one datacenter joining later, local clients per datacenter and global clients, optionally under crash/partition/etcd-leader-move/net-cut/resign; oracle: timestamps of different allocators never equal, global > every local completed before it began, local after a completed global > it, suffix per dc assigned once and unique, per-allocator C01 order. non-trivial = at least one local and one global timestamp granted",
		Real: realE1, Stub: stubE1,
	})
}
