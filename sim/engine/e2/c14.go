package e2

import (
	"fmt"
	"sort"
	"strings"
	"time"

	"github.com/gogo/protobuf/proto"
	"github.com/pingcap/kvproto/pkg/metapb"
	"github.com/pingcap/kvproto/pkg/pdpb"
	"github.com/tikv/pd/server/core"

	ec "pdsim/engine/core"
	"pdsim/engine/e1"
	"pdsim/simrt"
	"pdsim/simtikv"
)

// C14: store lifecycle is a one-way state machine and stays durable.

type storeView struct {
	state     metapb.StoreState
	destroyed bool
	address   string
}

type c14Oracle struct {
	rc   *corepkg
	w    *World
	last map[uint64]storeView
}

func (o *c14Oracle) monitor() {
	bc := o.w.Srv.GetBasicCluster()
	cur := map[uint64]storeView{}
	addr := map[string]uint64{}
	for _, s := range bc.GetStores() {
		v := storeView{state: s.GetState(), destroyed: s.IsPhysicallyDestroyed(), address: s.GetAddress()}
		cur[s.GetID()] = v
		if v.state != metapb.StoreState_Tombstone && !v.destroyed {
			if other, dup := addr[v.address]; dup {
				o.rc.Violate("c14.address", "live-stores-share-address", "stores %d and %d are neither tombstone nor physically destroyed and share address %s", other, s.GetID(), v.address)
				return
			}
			addr[v.address] = s.GetID()
		}
		p, had := o.last[s.GetID()]
		if !had {
			continue
		}
		if p.destroyed && !v.destroyed {
			o.rc.Violate("c14.state", "physically-destroyed-flag-cleared", "store %d was physically destroyed and is served as not destroyed", s.GetID())
			return
		}
		if p.state == v.state {
			continue
		}
		ok := false
		switch {
		case p.state == metapb.StoreState_Up && v.state == metapb.StoreState_Offline:
			ok = true
		case p.state == metapb.StoreState_Offline && v.state == metapb.StoreState_Up:
			ok = !p.destroyed
		case p.state == metapb.StoreState_Offline && v.state == metapb.StoreState_Tombstone:
			ok = true
			// buried only while it holds no region peers
			if n := bc.GetStoreRegionCount(s.GetID()); n > 0 {
				o.rc.Violate("c14.bury", "buried-with-region-peers", "store %d turned Tombstone while the served cache holds %d region peers on it", s.GetID(), n)
				return
			}
			o.rc.Extra["buried"]++
		}
		if !ok {
			o.rc.Violate("c14.state", "illegal-store-transition", "store %d went %v(destroyed=%v) -> %v", s.GetID(), p.state, p.destroyed, v.state)
			return
		}
		o.rc.Extra["transitions"]++
	}
	o.last = cur
}

func storeDigest(bc *core.BasicCluster) string {
	ss := bc.GetStores()
	sort.Slice(ss, func(i, j int) bool { return ss[i].GetID() < ss[j].GetID() })
	var b strings.Builder
	for _, s := range ss {
		m := proto.Clone(s.GetMeta()).(*metapb.Store)
		m.LastHeartbeat = 0
		fmt.Fprintf(&b, "%s|%v|%v;", m.String(), s.GetLeaderWeight(), s.GetRegionWeight())
	}
	return b.String()
}

// storeDigests: the same, per store.
func storeDigests(bc *core.BasicCluster) map[uint64]string {
	out := map[uint64]string{}
	for _, s := range bc.GetStores() {
		m := proto.Clone(s.GetMeta()).(*metapb.Store)
		m.LastHeartbeat = 0
		out[s.GetID()] = fmt.Sprintf("%s|%v|%v;", m.String(), s.GetLeaderWeight(), s.GetRegionWeight())
	}
	return out
}

const c14Group = 12

func c14(rc *corepkg) {
	s := rc.S
	nStores := 3 + rc.Knob("extra_stores", 3)
	w := newWorld(rc, worldOpts{stores: nStores, replicas: 3})
	if w == nil {
		return
	}
	bc := w.Srv.GetBasicCluster()
	st := w.Srv.GetStorage()
	o := &c14Oracle{rc: rc, w: w, last: map[uint64]storeView{}}
	s.AddMonitor(o.monitor)
	cli := w.E.W.Net.Dial(w.L.ClientURL)
	hdr := &pdpb.RequestHeader{ClusterId: w.E.ClusterID}
	concurrent := rc.Mode == "concurrent"
	// fault plan (sequential): the k-th storage write of store data fails
	k := 0
	if !concurrent {
		k = rc.Run % c14Group
		w.E.W.Etcd.FailKeyFilter = func(key string) bool {
			return strings.Contains(key, "/raft/s/") || strings.Contains(key, "/store_weight/")
		}
		w.E.W.Etcd.FailNthWrite(k, "before")
		rc.Knobs["fail_store_write_no"] = k
	}
	// initial heartbeats so that stores hold peers
	sendHB := func(hb *pdpb.RegionHeartbeatRequest) error {
		var err error
		w.onPD("region-heartbeat", func() { err = w.Cl.HandleRegionHeartbeat(core.RegionFromHeartbeat(hb)) })
		return err
	}
	for _, r := range w.M.SortedRegions() {
		sendHB(w.M.Heartbeat(r))
	}
	nextStore := uint64(nStores + 1)
	nOps := 10 + rc.Knob("ops", 50)
	admin := func(label string, f func() error) error {
		var err error
		w.onPD(label, func() { err = f() })
		return err
	}
	running := 1
	restarts := 0
	if concurrent {
		s.SetSchedKnobs(rc.KnobF("p_switch2", 0.3, 1), rc.KnobF("p_lock2", 0.1, 0.4), 0, 0)
		// a heartbeat stream keeps moving peers around (also onto offline stores: foreign conf changes / stale reports)
		running++
		s.Spawn(-1, "hb-stream", func() {
			defer func() { running-- }()
			for i := 0; i < nOps*3 && len(rc.Viol) == 0; i++ {
				if s.Choose(2, "hb.mutate") == 0 {
					mutate(rc, w.M)
				}
				rs := w.M.SortedRegions()
				hb := w.M.Heartbeat(rs[s.Choose(len(rs), "hb.region")])
				if len(w.M.Sent) > 1 && s.Choose(4, "hb.old") == 0 {
					hb = w.M.Sent[s.Choose(len(w.M.Sent), "hb.oldidx")]
				}
				sendHB(hb)
			}
		})
		// the real background check runs concurrently
		running++
		s.Spawn(-1, "check-stores-loop", func() {
			defer func() { running-- }()
			for i := 0; i < nOps && len(rc.Viol) == 0; i++ {
				admin("check-stores", func() error { w.Cl.SimCheckStores(); return nil })
				simrt.Yield("check-stores-gap")
			}
		})
	}
	s.Spawn(-1, "store-admin", func() {
		defer func() { running-- }()
		for i := 0; i < nOps && len(rc.Viol) == 0; i++ {
			stores := bc.GetStores()
			sort.Slice(stores, func(a, b int) bool { return stores[a].GetID() < stores[b].GetID() })
			pick := stores[s.Choose(len(stores), "st.pick")]
			id := pick.GetID()
			before := storeDigest(bc)
			beforeStores := storeDigests(bc)
			wasTombstone := pick.IsTombstone()
			var err error
			var hdrErr *pdpb.Error
			name := ""
			lifecycle := true
			opKind := s.Choose(12, "st.op")
			if opKind == 11 && (concurrent || restarts >= 2) {
				opKind = 8
			}
			switch opKind {
			case 0: // a new store, sometimes on an address already in use
				meta := &metapb.Store{Id: nextStore, Address: fmt.Sprintf("tikv%d:20160", nextStore), Version: "5.0.0"}
				if s.Choose(3, "st.dupaddr") == 0 {
					meta.Address = pick.GetAddress()
				}
				nextStore++
				name = fmt.Sprintf("PutStore new %d at %s", meta.Id, meta.Address)
				ctx, cancel := e1.Ctx(5 * time.Second)
				var r *pdpb.PutStoreResponse
				r, err = cli.PutStore(ctx, &pdpb.PutStoreRequest{Header: hdr, Store: meta})
				cancel()
				hdrErr = r.GetHeader().GetError()
				if err == nil && hdrErr == nil {
					w.M.AddStore(meta.Id, nil)
				}
			case 1: // re-registration of an existing id (same or new address, new labels)
				// what a restarting TiKV sends: its identity, address, labels and version - never a state or a destroyed flag
				meta := &metapb.Store{Id: id, Address: pick.GetAddress(), Version: pick.GetVersion(), StatusAddress: pick.GetMeta().GetStatusAddress()}
				switch s.Choose(5, "st.newaddr") {
				case 0:
					meta.Address = fmt.Sprintf("tikv%d-b:20160", id)
				case 1:
					// ... or it comes back on the address another store is using (must be refused unless that one is gone)
					meta.Address = stores[s.Choose(len(stores), "st.otheraddr")].GetAddress()
				}
				meta.Labels = []*metapb.StoreLabel{{Key: "zone", Value: fmt.Sprintf("z%d", s.Choose(3, "st.zone"))}}
				name = fmt.Sprintf("PutStore again %d at %s", id, meta.Address)
				ctx, cancel := e1.Ctx(5 * time.Second)
				var r *pdpb.PutStoreResponse
				r, err = cli.PutStore(ctx, &pdpb.PutStoreRequest{Header: hdr, Store: meta})
				cancel()
				hdrErr = r.GetHeader().GetError()
				if wasTombstone && err == nil && hdrErr == nil {
					rc.Violate("c14.tombstone", "tombstone-reregistration-accepted", "store %d is tombstone but its re-registration was accepted", id)
					return
				}
			case 2, 3:
				destroyed := s.Choose(3, "st.destroyed") == 0
				name = fmt.Sprintf("RemoveStore %d destroyed=%v", id, destroyed)
				err = admin("remove-store", func() error { return w.Cl.RemoveStore(id, destroyed) })
			case 4:
				name = fmt.Sprintf("UpStore %d", id)
				err = admin("up-store", func() error { return w.Cl.UpStore(id) })
			case 5:
				lw, rw := float64(1+s.Choose(8, "st.lw"))/2, float64(1+s.Choose(8, "st.rw"))/2
				name = fmt.Sprintf("SetStoreWeight %d %v %v", id, lw, rw)
				err = admin("set-weight", func() error { return w.Cl.SetStoreWeight(id, lw, rw) })
			case 6:
				labels := []*metapb.StoreLabel{{Key: "zone", Value: fmt.Sprintf("z%d", s.Choose(3, "st.zone2"))}, {Key: "host", Value: fmt.Sprintf("h%d", id)}}
				force := s.Choose(2, "st.force") == 0
				name = fmt.Sprintf("UpdateStoreLabels %d force=%v", id, force)
				err = admin("update-labels", func() error { return w.Cl.UpdateStoreLabels(id, labels, force) })
			case 7:
				name = "RemoveTombStoneRecords"
				err = admin("remove-tombstones", func() error { return w.Cl.RemoveTombStoneRecords() })
			case 8:
				name = "checkStores"
				err = admin("check-stores", func() error { w.Cl.SimCheckStores(); return nil })
			case 9: // store heartbeat
				lifecycle = false
				name = fmt.Sprintf("StoreHeartbeat %d", id)
				ctx, cancel := e1.Ctx(5 * time.Second)
				var r *pdpb.StoreHeartbeatResponse
				r, err = cli.StoreHeartbeat(ctx, &pdpb.StoreHeartbeatRequest{Header: hdr, Stats: &pdpb.StoreStats{StoreId: id, Capacity: 1 << 40, Available: 1 << 39, RegionCount: uint32(bc.GetStoreRegionCount(id))}})
				cancel()
				hdrErr = r.GetHeader().GetError()
				if wasTombstone && err == nil && hdrErr == nil {
					rc.Violate("c14.tombstone", "tombstone-heartbeat-accepted", "store %d is tombstone but its heartbeat was accepted", id)
					return
				}
			case 11: // PD restarts: everything is loaded back from storage, then the store check runs before any heartbeat
				lifecycle = false
				restarts++
				name = "restart PD + checkStores"
				w.onPD("flush", func() { st.Flush() })
				w.restarting = true
				w.L.Crash()
				simrt.Sleep(300 * time.Millisecond)
				if serr := w.L.Start(); serr != nil {
					rc.Anomaly("restart: %v", serr)
					return
				}
				l := w.E.WaitLeader(20 * time.Second)
				for i := 0; l != nil && l.Srv.GetRaftCluster() == nil && i < 100; i++ {
					simrt.Sleep(100 * time.Millisecond)
				}
				if l == nil || l.Srv.GetRaftCluster() == nil {
					rc.Anomaly("liveness: no serving cluster after a restart")
					return
				}
				w.L, w.Srv, w.Cl = l, l.Srv, l.Srv.GetRaftCluster()
				w.restarting = false
				bc, st = w.Srv.GetBasicCluster(), w.Srv.GetStorage()
				cli = w.E.W.Net.Dial(w.L.ClientURL)
				rc.Extra["pd_restarts"]++
				err = admin("check-stores", func() error { w.Cl.SimCheckStores(); return nil })
				before, beforeStores = storeDigest(bc), storeDigests(bc)
			case 10: // the TiKV side drains an offline store / moves peers (so that it can be buried), and reports it
				lifecycle = false
				name = fmt.Sprintf("drain store %d", id)
				for _, r := range w.M.SortedRegions() {
					if p := r.PeerOnStore(id); p != nil && (pick.IsOffline() || s.Choose(3, "st.drain") == 0) {
						if p.ID == r.Leader {
							for _, q := range r.Peers {
								if q.ID != p.ID && q.Role == metapb.PeerRole_Voter {
									r.Elect(q.ID)
									break
								}
							}
						}
						if p.ID != r.Leader && r.Voters() > 1 {
							for j := range r.Peers {
								if r.Peers[j].ID == p.ID {
									r.Peers = append(r.Peers[:j], r.Peers[j+1:]...)
									r.ConfVer++
									break
								}
							}
						}
					}
					sendHB(w.M.Heartbeat(r))
				}
			}
			if concurrent {
				continue
			}
			failed := err != nil || hdrErr != nil
			injected := err != nil && strings.Contains(err.Error(), "injected")
			after := storeDigest(bc)
			if failed && lifecycle && after != before && name == "RemoveTombStoneRecords" {
				// the cleanup is one storage write per tombstone: the failed write must leave ITS store unchanged; stores whose
				// own delete succeeded before it are gone from the served state and from storage alike
				ok := true
				now := storeDigests(bc)
				for sid, d := range beforeStores {
					if nd, there := now[sid]; there {
						ok = ok && nd == d
						continue
					}
					var loaded metapb.Store
					var found bool
					admin("load-store", func() error { found, _ = st.LoadStore(sid, &loaded); return nil })
					ok = ok && !found && strings.Contains(d, "state:Tombstone")
				}
				for sid := range now {
					if _, was := beforeStores[sid]; !was {
						ok = false
					}
				}
				if ok {
					after = before
					rc.Extra["partial_tombstone_cleanup"]++
				}
			}
			if failed && lifecycle && after != before {
				rc.Violate("c14.atomic", "failed-change-changed-served-state", "%s failed (%v %v) but the served store state changed:\n before %s\n after  %s", name, err, hdrErr, before, after)
				return
			}
			if injected {
				rc.Extra["storage_faults"]++
			}
			if !failed && lifecycle {
				rc.Extra["changes_ok"]++
				// the stored record equals the served record
				for _, sv := range bc.GetStores() {
					var loaded metapb.Store
					var ok bool
					var lerr error
					admin("load-store", func() error { ok, lerr = st.LoadStore(sv.GetID(), &loaded); return nil })
					if lerr != nil {
						continue
					}
					served := proto.Clone(sv.GetMeta()).(*metapb.Store)
					served.LastHeartbeat, loaded.LastHeartbeat = 0, 0
					if !ok || !proto.Equal(served, &loaded) {
						rc.Violate("c14.durable", "stored-record-differs-from-served", "after %s: store %d is served as %v but stored as %v (present=%v)", name, sv.GetID(), served, &loaded, ok)
						return
					}
				}
			}
			rc.Note("%s -> %v", name, !failed)
		}
	})
	for running > 0 && len(rc.Viol) == 0 {
		simrt.Sleep(20 * time.Millisecond)
	}
	rc.Nontrivial = rc.Extra["transitions"] > 0
	rc.Note("%s: stores=%d ops=%d transitions=%d buried=%d changes_ok=%d storage-faults=%d fail_at=%d", rc.Mode, nStores, nOps, rc.Extra["transitions"], rc.Extra["buried"], rc.Extra["changes_ok"], rc.Extra["storage_faults"], k)
	rc.State(fmt.Sprintf("%s tr=%d bur=%d f=%d", rc.Mode, min(rc.Extra["transitions"], 10), min(rc.Extra["buried"], 4), rc.Extra["storage_faults"]))
}

var _ = simtikv.KeyOf

func init() {
	ec.Register(&ec.Profile{
		Property: "C14", Level: "fault_enumeration",
		Modes: []string{"sequential", "sequential", "concurrent"},
		SeedOf: func(run int) int {
			if run%3 == 2 {
				return 1<<20 + run
			}
			return run / c14Group
		},
		Body:     c14,
		MaxSteps: 3000000, MaxTime: 20 * time.Minute,
		QuickBudget: 60 * time.Second, ThoroughBudget: 15 * time.Minute,
		Rule: "a bootstrapped real PD leader with 3-5 stores holding region peers; sequences of PutStore (new / same id / same address / tombstone re-registration) and StoreHeartbeat through the real gRPC handlers and RemoveStore (with/without physically-destroyed), UpStore, SetStoreWeight, UpdateStoreLabels, RemoveTombStoneRecords, checkStores through the real RaftCluster methods, interleaved with region placements reported by the TiKV model. Sequential mode: groups of 12 runs share one sequence and run k makes the k-th storage write of store data fail; after each successful change the stored record must equal the served one, a failed change leaves the served digest unchanged, tombstone heartbeats / re-registrations are refused. Concurrent mode: the real checkStores loop and a heartbeat stream run concurrently with the admin operations. Monitor after every scheduler step: transitions only Up->Offline, Offline->Up unless destroyed, Offline->Tombstone; at the step a store turns Tombstone it holds no region peers; no two live stores share an address. non-trivial = at least one store state transition",
		Real: realCluster, Stub: stubCluster,
	})
}
