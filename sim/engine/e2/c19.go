package e2

import (
	"bytes"
	"encoding/json"
	"fmt"
	"sort"
	"strings"
	"time"

	"github.com/pingcap/kvproto/pkg/pdpb"
	pb "github.com/pingcap/kvproto/pkg/replication_modepb"
	"github.com/tikv/pd/pkg/typeutil"
	"github.com/tikv/pd/server/config"
	"github.com/tikv/pd/server/core"
	"github.com/tikv/pd/server/replication"

	ec "pdsim/engine/core"
	"pdsim/engine/e1"
	"pdsim/simrt"
)

// C19: DR auto-sync only declares 'sync' when every region is in sync.

type drView struct {
	mode  pb.ReplicationMode
	state pb.DRAutoSyncState
	id    uint64
}

func c19(rc *corepkg) {
	s := rc.S
	nPrimary, nDR := 1+rc.Knob("primary_stores", 3), 1+rc.Knob("dr_stores", 2)
	primaryReplicas, drReplicas := 1+rc.Knob("primary_replicas", nPrimary), 1+rc.Knob("dr_replicas", nDR)
	waitStore := rc.KnobD("wait_store_timeout", 30*time.Second, 60*time.Second)
	waitAsync := rc.KnobD("wait_async_timeout", 0, 30*time.Second, 3*time.Minute)
	startDR := rc.Knob("start_in_dr_mode", 3) != 0
	drCfg := config.ReplicationModeConfig{ReplicationMode: "dr-auto-sync", DRAutoSync: config.DRAutoSyncReplicationConfig{
		LabelKey: "zone", Primary: "z1", DR: "z2", PrimaryReplicas: primaryReplicas, DRReplicas: drReplicas,
		WaitStoreTimeout: typeutil.NewDuration(waitStore), WaitSyncTimeout: typeutil.NewDuration(time.Minute), WaitAsyncTimeout: typeutil.NewDuration(waitAsync)}}
	replication.SimSetScanBatch(2+rc.Knob("scan_batch", 4), 2)
	nStores := nPrimary + nDR
	w := newWorld(rc, worldOpts{stores: nStores, replicas: min(3, nStores),
		labels: func(i int) map[string]string {
			if i <= nPrimary {
				return map[string]string{"zone": "z1"}
			}
			return map[string]string{"zone": "z2"}
		},
		cfgTweak: func(c *config.Config) {
			if startDR {
				c.ReplicationMode = drCfg
			}
		}})
	if w == nil {
		return
	}
	etcd := w.E.W.Etcd
	bc := w.Srv.GetBasicCluster()
	mm := w.Cl.GetReplicationMode()
	cli := w.E.W.Net.Dial(w.L.ClientURL)
	hdr := &pdpb.RequestHeader{ClusterId: w.E.ClusterID}
	// the bootstrap store has no labels yet: register them
	{
		ctx, cancel := e1.Ctx(5 * time.Second)
		cli.PutStore(ctx, &pdpb.PutStoreRequest{Header: hdr, Store: w.M.Stores[1].Meta()})
		cancel()
	}
	// several regions, more than one scan batch
	for i := 0; i < 3+rc.Knob("splits", 8); i++ {
		rs := w.M.SortedRegions()
		r := rs[s.Choose(len(rs), "c19.split")]
		hi := r.End
		if hi < 0 {
			hi = w.M.NumKeys
		}
		if hi-r.Start >= 2 {
			ids := make([]uint64, len(r.Peers))
			nid := w.M.AllocID()
			for j := range ids {
				ids[j] = w.M.AllocID()
			}
			w.M.Split(r, r.Start+1+s.Choose(hi-r.Start-1, "c19.at"), nid, ids)
		}
	}
	statusKey := w.E.RootPath + "/replication_mode/dr-auto-sync"
	// ---- oracle state
	lastHB := map[uint64]time.Time{}   // store -> time of its last acknowledged heartbeat
	lastSent := map[uint64]time.Time{} // store -> time its latest heartbeat was sent (PD may have handled it already)
	storeUp := map[uint64]bool{}
	for id := range w.M.Stores {
		storeUp[id] = true
	}
	seenIDs := map[uint64]bool{}
	var served drView
	served.mode = -1
	var servedSince time.Time
	start := time.Now()
	// coverage of the key space by regions seen in PD's cache with INTEGRITY under the current state id
	covered := make([]bool, w.M.NumKeys+2)
	keyIdx := func(k []byte, end bool) int {
		if len(k) == 0 {
			if end {
				return len(covered)
			}
			return 0
		}
		var i int
		fmt.Sscanf(string(k), "k%06d", &i)
		return i
	}
	failed := func(zone string, slack time.Duration) (lo, hi int) {
		// number of failed stores of a zone as PD may see it: [certainly failed, possibly failed]
		for id, st := range w.M.Stores {
			if st.Labels["zone"] != zone {
				continue
			}
			t, ok := lastHB[id]
			if !ok {
				t = start
			}
			down := time.Since(t)
			if down >= waitStore-slack {
				hi++
			}
			if ts, ok := lastSent[id]; ok && ts.After(t) {
				down = time.Since(ts)
			}
			if down >= waitStore+slack {
				lo++
			}
		}
		return
	}
	s.AddMonitor(func() {
		st := mm.GetReplicationStatus()
		cur := drView{mode: st.GetMode()}
		if st.GetDrAutoSync() != nil {
			cur.state, cur.id = st.GetDrAutoSync().GetState(), st.GetDrAutoSync().GetStateId()
		}
		// coverage under the current id
		if cur.mode == pb.ReplicationMode_DR_AUTO_SYNC && cur.state == pb.DRAutoSyncState_SYNC_RECOVER && cur == served {
			for _, r := range bc.GetRegions() {
				rs := r.GetReplicationStatus()
				if rs.GetStateId() == cur.id && rs.GetState() == pb.RegionReplicationState_INTEGRITY_OVER_LABEL {
					for i := keyIdx(r.GetStartKey(), false); i < keyIdx(r.GetEndKey(), true) && i < len(covered); i++ {
						covered[i] = true
					}
				}
			}
		}
		if cur == served {
			return
		}
		prev := served
		served, servedSince = cur, time.Now()
		if cur.mode != pb.ReplicationMode_DR_AUTO_SYNC {
			return
		}
		rc.Extra["dr_transitions"]++
		s.Event("DR state %v/%d -> %v/%d", prev.state, prev.id, cur.state, cur.id)
		// every transition carries a fresh state id
		if cur.id == 0 || seenIDs[cur.id] {
			rc.Violate("c19.stateid", "state-id-reused", "replication state %v is served with state id %d which %s", cur.state, cur.id, map[bool]string{true: "was used before", false: "is zero"}[seenIDs[cur.id]])
			return
		}
		seenIDs[cur.id] = true
		// ... persisted before it is served
		kv := etcd.Get(statusKey)
		var stored struct {
			State   string `json:"state"`
			StateID uint64 `json:"state_id"`
		}
		if kv != nil {
			json.Unmarshal(kv.Value, &stored)
		}
		if kv == nil || stored.StateID != cur.id || !strings.EqualFold(stored.State, cur.state.String()) {
			rc.Violate("c19.persist", "served-before-persisted", "state %v/%d is served but storage holds %s/%d", cur.state, cur.id, stored.State, stored.StateID)
			return
		}
		if prev.mode != pb.ReplicationMode_DR_AUTO_SYNC {
			return // mode switch / start-up: any initial state
		}
		slack := 2 * time.Second
		pLo, pHi := failed("z1", slack)
		dLo, dHi := failed("z2", slack)
		switch {
		case cur.state == pb.DRAutoSyncState_ASYNC:
			// only when the failed stores of one dc reached its replica count, a majority can still be up, and the timeout passed
			if prev.state == cur.state {
				return // label key change
			}
			oneDCLost := pHi >= primaryReplicas || dHi >= drReplicas
			up := 0
			if pLo < primaryReplicas {
				up += primaryReplicas - pLo
			}
			if dLo < drReplicas {
				up += drReplicas - dLo
			}
			if !oneDCLost {
				rc.Violate("c19.guard", "async-without-dc-failure", "switched to async with %d..%d failed primary stores (replicas %d) and %d..%d failed dr stores (replicas %d)", pLo, pHi, primaryReplicas, dLo, dHi, drReplicas)
				return
			}
			if up*2 <= primaryReplicas+drReplicas {
				rc.Violate("c19.guard", "async-without-majority", "switched to async although at most %d of %d replicas can be up", up, primaryReplicas+drReplicas)
				return
			}
			if waitAsync > 0 && time.Since(start) <= waitAsync-slack {
				rc.Violate("c19.guard", "async-before-timeout", "switched to async %v after start, wait-async-timeout is %v", time.Since(start), waitAsync)
				return
			}
		case cur.state == pb.DRAutoSyncState_SYNC_RECOVER && prev.state == pb.DRAutoSyncState_ASYNC:
			if pLo >= primaryReplicas || dLo >= drReplicas {
				detail := ""
				for _, st := range bc.GetStores() {
					detail += fmt.Sprintf(" store%d[%s]: pd-down=%v harness-down=%v up=%v;", st.GetID(), st.GetLabelValue("zone"), st.DownTime().Round(time.Second), time.Since(lastHB[st.GetID()]).Round(time.Second), storeUp[st.GetID()])
				}
				rc.Violate("c19.guard", "sync-recover-with-dc-failure", "switched async -> sync_recover with %d failed primary stores (replicas %d) and %d failed dr stores (replicas %d):%s", pLo, primaryReplicas, dLo, drReplicas, detail)
				return
			}
			for i := range covered {
				covered[i] = false
			}
		case cur.state == pb.DRAutoSyncState_SYNC && prev.state == pb.DRAutoSyncState_SYNC_RECOVER:
			for i := 0; i <= w.M.NumKeys; i++ {
				if !covered[i] {
					rc.Violate("c19.sync", "sync-declared-without-full-integrity", "switched sync_recover -> sync although no region covering key index %d reported integrity under state id %d", i, prev.id)
					return
				}
			}
			rc.Extra["sync_declared"]++
		case cur.state == pb.DRAutoSyncState_SYNC_RECOVER:
			for i := range covered {
				covered[i] = false
			}
		default:
			rc.Violate("c19.guard", "unexpected-transition", "replication state went %v -> %v", prev.state, cur.state)
		}
	})
	_ = servedSince
	// ---- the TiKV side
	known := map[uint64]drView{} // what each store was last told
	simDur := time.Duration(8+rc.Knob("sim_minutes", 18)) * time.Minute
	stop := false
	running := 0
	for id := range w.M.Stores {
		id := id
		running++
		s.Spawn(-1, fmt.Sprintf("store-%d", id), func() {
			defer func() { running-- }()
			for !stop && len(rc.Viol) == 0 {
				if storeUp[id] {
					ctx, cancel := e1.Ctx(5 * time.Second)
					lastSent[id] = time.Now()
					r, err := cli.StoreHeartbeat(ctx, &pdpb.StoreHeartbeatRequest{Header: hdr, Stats: &pdpb.StoreStats{StoreId: id, Capacity: 1 << 40, Available: 1 << 39}})
					cancel()
					if err == nil && r.GetHeader().GetError() == nil {
						lastHB[id] = time.Now()
						if d := r.GetReplicationStatus().GetDrAutoSync(); d != nil {
							known[id] = drView{state: d.GetState(), id: d.GetStateId()}
						}
					}
				}
				simrt.Sleep(10 * time.Second)
			}
		})
	}
	// region reports: complete, with gaps, with stale state ids, in any order
	reportMode := rc.Knob("report_mode", 4) // 0: honest, 1: gaps, 2: stale ids, 3: mixed
	silentRegions := rc.Knob("silent_regions", 3) == 1
	reported, silent := map[uint64]bool{}, map[uint64]bool{}
	running++
	s.Spawn(-1, "region-reporter", func() {
		defer func() { running-- }()
		for !stop && len(rc.Viol) == 0 {
			rs := w.M.SortedRegions()
			// any order
			for i := len(rs) - 1; i > 0; i-- {
				j := s.Choose(i+1, "rep.shuffle")
				rs[i], rs[j] = rs[j], rs[i]
			}
			for _, r := range rs {
				// a region born from a split may never reach PD (its leader cannot talk to PD): a lasting hole in the
				// key space PD knows, which must keep the cluster out of 'sync'
				if !reported[r.ID] && !silent[r.ID] && silentRegions && len(reported) > 0 && s.Choose(3, "rep.silent") == 0 {
					silent[r.ID] = true
					rc.Extra["silent_regions"]++
				}
				if silent[r.ID] {
					continue
				}
				reported[r.ID] = true
				lp := r.LeaderPeer()
				if lp == nil || !storeUp[lp.StoreID] {
					// elect a leader on an up store
					for _, p := range r.Peers {
						if storeUp[p.StoreID] {
							r.Elect(p.ID)
							lp = r.LeaderPeer()
							break
						}
					}
					if lp == nil || !storeUp[lp.StoreID] {
						continue
					}
				}
				k := known[lp.StoreID]
				hb := w.M.Heartbeat(r)
				state := pb.RegionReplicationState_INTEGRITY_OVER_LABEL
				id := k.id
				// integrity needs a live replica in both zones
				z1, z2 := false, false
				for _, p := range r.Peers {
					if storeUp[p.StoreID] {
						if w.M.Stores[p.StoreID].Labels["zone"] == "z1" {
							z1 = true
						} else {
							z2 = true
						}
					}
				}
				if !z1 || !z2 {
					state = pb.RegionReplicationState_SIMPLE_MAJORITY
				}
				switch {
				case (reportMode == 1 || reportMode == 3) && s.Choose(4, "rep.gap") == 0:
					continue
				case (reportMode == 2 || reportMode == 3) && s.Choose(4, "rep.stale") == 0:
					if id > 1 {
						id -= uint64(1 + s.Choose(2, "rep.staleby"))
					}
				case reportMode == 3 && s.Choose(6, "rep.simple") == 0:
					state = pb.RegionReplicationState_SIMPLE_MAJORITY
				}
				if k.id != 0 {
					hb.ReplicationStatus = &pb.RegionReplicationStatus{State: state, StateId: id}
				}
				w.onPD("region-heartbeat", func() { w.Cl.HandleRegionHeartbeat(core.RegionFromHeartbeat(hb)) })
				if s.Choose(3, "rep.pace") == 0 {
					simrt.Sleep(time.Duration(s.Choose(3000, "rep.gapms")) * time.Millisecond)
				}
			}
			if s.Choose(3, "rep.mutate") == 0 {
				mutate(rc, w.M)
			}
			simrt.Sleep(time.Duration(2+s.Choose(8, "rep.round")) * time.Second)
		}
	})
	// nemesis: store failures per datacenter, config switches, storage / file-replication failures at transitions
	running++
	var holdUntil time.Time
	s.Spawn(-1, "dr-nemesis", func() {
		defer func() { running-- }()
		for !stop && len(rc.Viol) == 0 {
			simrt.Sleep(time.Duration(20+s.Choose(100, "nem.gap")) * time.Second)
			allUp := true
			for _, u := range storeUp {
				allUp = allUp && u
			}
			kind := s.Choose(8, "nem.kind")
			if allUp && kind < 5 {
				kind = 0 // with everything up, mostly take something down
			} else if !allUp && kind == 0 {
				// a second failure on top of the first (e.g. one dc lost and a store of the other)
				rc.Extra["double_failures"]++
			} else if !allUp && kind < 4 {
				kind = 3 // with something down, mostly recover
				if time.Now().Before(holdUntil) {
					continue // ... but usually only after the failure lasted long enough to be noticed
				}
			}
			switch kind {
			case 0, 1, 2:
				// take down every store of one dc, or a single store
				zone := []string{"z2", "z1", "z2"}[s.Choose(3, "nem.zone")]
				downAll := s.Choose(3, "nem.all") != 0
				for id, st := range w.M.Stores {
					if st.Labels["zone"] == zone && (downAll || s.Choose(2, "nem.one") == 0) {
						storeUp[id] = false
					}
				}
				if s.Choose(4, "nem.hold") != 0 {
					holdUntil = time.Now().Add(waitStore + waitAsync + time.Duration(20+s.Choose(60, "nem.holdfor"))*time.Second)
				}
				rc.Note("stores of %s down (all=%v) @%v", zone, downAll, s.Elapsed().Round(time.Second))
				s.Count("fault.store-down")
			case 3:
				for id := range w.M.Stores {
					storeUp[id] = true
				}
				rc.Note("all stores up @%v", s.Elapsed().Round(time.Second))
			case 4:
				// switch between majority and dr-auto-sync
				cfg := drCfg
				if served.mode == pb.ReplicationMode_DR_AUTO_SYNC {
					cfg.ReplicationMode = "majority"
				}
				w.onPD("set-replication-mode", func() { w.Srv.SetReplicationModeConfig(cfg) })
				rc.Note("replication mode -> %s @%v", cfg.ReplicationMode, s.Elapsed().Round(time.Second))
				rc.Extra["mode_switches"]++
			case 5:
				// the next write of the replication status fails
				etcd.FailKeyFilter = func(key string) bool { return strings.Contains(key, "/replication_mode/") }
				etcd.FailNthWrite(1, []string{"before", "after"}[s.Choose(2, "nem.failmode")])
				s.Count("fault.replication-status-write-armed")
			case 6:
				w.E.W.HTTPFaults.PFail = []float64{0, 0.5, 1}[s.Choose(3, "nem.http")]
			case 7:
				etcd.FailNthWrite(0, "")
				w.E.W.HTTPFaults.PFail = 0
			}
		}
	})
	simrt.Sleep(simDur)
	stop = true
	for running > 0 && len(rc.Viol) == 0 {
		simrt.Sleep(time.Second)
	}
	rc.Nontrivial = rc.Extra["dr_transitions"] > 1
	rc.Note("primary=%d(%d replicas) dr=%d(%d replicas) wait-store=%v wait-async=%v report-mode=%d transitions=%d sync-declared=%d mode-switches=%d sim=%v",
		nPrimary, primaryReplicas, nDR, drReplicas, waitStore, waitAsync, reportMode, rc.Extra["dr_transitions"], rc.Extra["sync_declared"], rc.Extra["mode_switches"], simDur)
	rc.State(fmt.Sprintf("tr=%d sync=%d rm=%d", min(rc.Extra["dr_transitions"], 10), min(rc.Extra["sync_declared"], 4), reportMode))
}

var _ = bytes.Compare
var _ = sort.Strings

func init() {
	ec.Register(&ec.Profile{
		Property: "C19", Level: "exploration",
		Modes:    []string{"dr"},
		Body:     c19,
		MaxSteps: 4000000, MaxTime: 40 * time.Minute,
		QuickBudget: 60 * time.Second, ThoroughBudget: 15 * time.Minute,
		Rule:        "one run = a bootstrapped real PD leader in (or switched into) dr-auto-sync mode with 1-3 primary and 1-2 dr stores, drawn replica counts and timeouts, region scan batch lowered to 2-5, the real ModeManager.Run loop ticking under the fake clock for 4-15 simulated minutes; stores heartbeat every 10 s while up and learn the state id from the real responses; regions report integrity / simple-majority with the current or a stale state id, completely or with gaps, in any order, while splitting and merging; a nemesis takes datacenters or single stores down and up (down = no heartbeat for wait-store-timeout), switches majority <-> dr-auto-sync, arms a failure (clean or unknown outcome) of the next replication-status write and makes file replication fail. Monitor after every scheduler step on GetReplicationStatus(): every served transition has a fresh state id that is already in storage; -> async only with one dc at/over its replica count of failed stores, a possible majority and the timeout passed; async -> sync_recover only with both dcs below; sync_recover -> sync only if regions seen with integrity under the current id cover the whole key space. non-trivial = >1 served transition",
		Assumptions: []string{"store-down guards are evaluated with a 2 s slack around wait-store-timeout (PD evaluates them a few milliseconds earlier than the monitor observes the transition)"},
		Real:        realCluster, Stub: stubCluster,
	})
}
