package e2

import (
	"fmt"
	"sort"
	"time"

	"github.com/pingcap/kvproto/pkg/metapb"
	"github.com/tikv/pd/server/core"
	"github.com/tikv/pd/server/schedule/operator"
	"github.com/tikv/pd/server/schedule/placement"

	ec "pdsim/engine/core"
	"pdsim/simrt"
	"pdsim/simtikv"
)

// C10: replica repair never targets bad stores nor shrinks healthy replication.
//
// The world: the real coordinator patrols regions (replica checker or placement-rule checker), stores heartbeat
// through the real handlers, a TiKV model executes the commands. A nemesis takes stores down / up, offline / up again,
// fills their disks, adds fresh stores, and removes / adds peers behind PD's back. A prober asks the real
// CheckerController for its proposal on a region at arbitrary instants; the monitor also sees every checker operator
// the patrol loop admits. The oracle judges each proposal against what PD has been TOLD (the interval of every store
// heartbeat and admin call is recorded: a fact counts only if PD certainly knew it when the proposal was made).

type rpcEv struct {
	send, ack time.Time
	done      bool
	low       bool // store heartbeat: reported low space
	state     int  // admin call: 0 up, 1 offline
}

type pdFacts struct {
	hb     map[uint64][]rpcEv
	admin  map[uint64][]rpcEv
	labels map[uint64]map[string]string
}

func (f *pdFacts) begin(m map[uint64][]rpcEv, id uint64, e rpcEv) {
	e.send = time.Now()
	m[id] = append(m[id], e)
	if n := len(m[id]); n > 48 {
		m[id] = m[id][n-48:]
	}
}

func (f *pdFacts) end(m map[uint64][]rpcEv, id uint64) {
	if n := len(m[id]); n > 0 && !m[id][n-1].done {
		m[id][n-1].done, m[id][n-1].ack = true, time.Now()
	}
}

// surelyDisconnected: PD cannot have handled a heartbeat of the store within the last `d` before T.
func (f *pdFacts) surelyDisconnected(id uint64, T time.Time, d time.Duration) bool {
	for _, e := range f.hb[id] {
		if !e.send.After(T) && (!e.done || !e.ack.Before(T.Add(-d))) {
			return false
		}
	}
	return true
}

// surelyConnected: PD has certainly handled a heartbeat within the last d before T.
func (f *pdFacts) surelyConnected(id uint64, T time.Time, d time.Duration) bool {
	for _, e := range f.hb[id] {
		if e.done && e.ack.Before(T) && !e.send.Before(T.Add(-d)) {
			return true
		}
	}
	return false
}

// lowSpace returns (surely low, surely not low) at T.
func (f *pdFacts) lowSpace(id uint64, T time.Time) (bool, bool) {
	var last *rpcEv
	allLow, allOK := true, true
	evs := f.hb[id]
	for i := range evs {
		e := &evs[i]
		if e.send.After(T) {
			continue
		}
		if e.done && e.ack.Before(T) {
			last = e
			continue
		}
		// in flight around T: may or may not have been handled
		if e.low {
			allOK = false
		} else {
			allLow = false
		}
	}
	if last == nil {
		return false, false
	}
	return allLow && last.low, allOK && !last.low
}

// offline returns (surely offline-or-gone, surely up) at T, from the admin calls made.
func (f *pdFacts) offline(id uint64, T time.Time) (bool, bool) {
	var last *rpcEv
	allOff, allUp := true, true
	evs := f.admin[id]
	for i := range evs {
		e := &evs[i]
		if e.send.After(T) {
			continue
		}
		if e.done && e.ack.Before(T) {
			last = e
			continue
		}
		if e.state == 1 {
			allUp = false
		} else {
			allOff = false
		}
	}
	if last == nil {
		return false, allUp
	}
	return allOff && last.state == 1, allUp && last.state == 0
}

type c10cfg struct {
	maxReplicas int
	locLabels   []string
	isolation   string
	rules       bool
	constraint  bool // the single rule only accepts stores with disk != bad
}

func samePath(a, b map[string]string, labels []string, upto string) bool {
	for _, l := range labels {
		if a[l] != b[l] {
			return false
		}
		if l == upto {
			break
		}
	}
	return true
}

func runCheckerWorld(rc *corepkg) {
	s := rc.S
	nStores := 3 + rc.Knob("extra_stores", 5)
	cfg := c10cfg{maxReplicas: 1 + rc.Knob("max_replicas", 5), rules: rc.Knob("placement_rules", 2) == 1}
	if cfg.maxReplicas > nStores {
		cfg.maxReplicas = nStores
	}
	switch rc.Knob("location", 4) {
	case 1:
		cfg.locLabels = []string{"zone"}
	case 2, 3:
		cfg.locLabels = []string{"zone", "host"}
	}
	if len(cfg.locLabels) > 0 {
		switch rc.Knob("isolation", 3) {
		case 1:
			cfg.isolation = "zone"
		case 2:
			cfg.isolation = cfg.locLabels[len(cfg.locLabels)-1]
		}
	}
	cfg.constraint = cfg.rules && rc.Knob("label_constraint", 2) == 1
	zones := 2 + rc.Knob("zones", 3)
	labelsOf := func(i int) map[string]string {
		l := map[string]string{"zone": fmt.Sprintf("z%d", i%zones), "host": fmt.Sprintf("h%d", i/2)}
		if cfg.constraint && i%4 == 3 {
			l["disk"] = "bad"
		}
		return l
	}
	initReplicas := 1 + rc.Knob("init_replicas", min(nStores, cfg.maxReplicas+1))
	joint := rc.Knob("joint_consensus", 2) == 1
	facts := &pdFacts{hb: map[uint64][]rpcEv{}, admin: map[uint64][]rpcEv{}, labels: map[uint64]map[string]string{}}
	ow := newOpWorld(rc, opWorldOpts{worldOpts: worldOpts{stores: nStores, replicas: initReplicas, fastPatrol: true, labels: labelsOf,
		cfgTweak: func(c *configT) {
			scheduleTweak(cfg.maxReplicas, cfg.locLabels, cfg.isolation, cfg.rules)(c)
			c.Schedule.EnableJointConsensus = joint
			c.Schedule.MaxMergeRegionSize = 0
			c.Schedule.PatrolRegionInterval.Duration = rc.KnobD("patrol", 200*time.Millisecond, time.Second)
		}},
		regions: 1 + rc.Knob("regions", 5), hbEvery: rc.KnobD("hb_every", time.Second, 3*time.Second), cmdDelay: rc.KnobD("cmd_delay", 0, 300*time.Millisecond, 2*time.Second)})
	if ow == nil {
		return
	}
	for id, st := range ow.M.Stores {
		facts.labels[id] = st.Labels
	}
	ow.onStoreHB = func(id uint64, phase int, low bool) {
		if phase == 0 {
			facts.begin(facts.hb, id, rpcEv{low: low})
		} else {
			facts.end(facts.hb, id)
		}
	}
	downSince := map[uint64]time.Time{}
	ow.M.DownSeconds = func(id uint64) uint64 {
		if t, ok := downSince[id]; ok {
			return uint64(time.Since(t) / time.Second)
		}
		return 0
	}
	rule := &placement.Rule{GroupID: "pd", ID: "default", Role: placement.Voter, Count: cfg.maxReplicas, LocationLabels: cfg.locLabels, IsolationLevel: cfg.isolation}
	if cfg.constraint {
		rule.LabelConstraints = []placement.LabelConstraint{{Key: "disk", Op: placement.NotIn, Values: []string{"bad"}}}
	}
	if cfg.rules {
		var err error
		ow.onPD("set-rule", func() { err = ow.Cl.GetRuleManager().SetRule(rule) })
		if err != nil {
			rc.Anomaly("set rule: %v", err)
			return
		}
	}
	okStore := func(id uint64) bool { return !cfg.constraint || facts.labels[id]["disk"] != "bad" }

	// ---- the oracle
	judge := func(where string, op *operator.Operator, region *core.RegionInfo, exact bool, T time.Time) {
		desc := op.Desc()
		var adds, removes []uint64
		firstRemove, lastAdd := -1, -1
		for i := 0; i < op.Len(); i++ {
			switch st := op.Step(i).(type) {
			case operator.AddPeer:
				adds, lastAdd = append(adds, st.ToStore), i
			case operator.AddLightPeer:
				adds, lastAdd = append(adds, st.ToStore), i
			case operator.AddLearner:
				adds, lastAdd = append(adds, st.ToStore), i
			case operator.AddLightLearner:
				adds, lastAdd = append(adds, st.ToStore), i
			case operator.RemovePeer:
				removes = append(removes, st.FromStore)
				if firstRemove < 0 {
					firstRemove = i
				}
			case operator.MergeRegion, operator.SplitRegion:
				return
			}
		}
		rc.Extra["judged:"+desc]++
		for _, to := range adds {
			if off, _ := facts.offline(to, T); off {
				rc.Violate("c10.target", "peer-added-on-offline-store", "%s: operator %s for region %d adds a peer on store %d which PD had been told to take offline (steps %v)", where, desc, op.RegionID(), to, stepsOf(op))
			}
			if facts.surelyDisconnected(to, T, 20*time.Second+500*time.Millisecond) {
				rc.Violate("c10.target", "peer-added-on-disconnected-store", "%s: operator %s for region %d adds a peer on store %d whose last heartbeat PD can have seen is more than 20s old (steps %v)", where, desc, op.RegionID(), to, stepsOf(op))
			}
			if low, _ := facts.lowSpace(to, T); low {
				rc.Violate("c10.target", "peer-added-on-full-store", "%s: operator %s for region %d adds a peer on store %d which reports less than 20%% (and less than 8 GiB) free space (steps %v)", where, desc, op.RegionID(), to, stepsOf(op))
			}
			if !okStore(to) && cfg.rules {
				rc.Violate("c10.target", "peer-added-against-label-constraint", "%s: operator %s for region %d adds a peer on store %d (labels %v) which the rule's label constraint excludes", where, desc, op.RegionID(), to, facts.labels[to])
			}
			if region == nil || !exact {
				continue
			}
			if region.GetStorePeer(to) != nil {
				rc.Violate("c10.target", "peer-added-on-store-holding-region", "%s: operator %s for region %d adds a peer on store %d which already holds one (peers %v)", where, desc, op.RegionID(), to, region.GetPeers())
			}
			// isolation level: the new peer must not share the location (down to the isolation level) with a peer that stays
			if cfg.isolation != "" {
				staying := 0
				for _, p := range region.GetPeers() {
					if okStore(p.GetStoreId()) || !cfg.rules {
						staying++
					}
				}
				if !cfg.rules || staying <= cfg.maxReplicas { // every such peer is one the checker compares with
					for _, p := range region.GetPeers() {
						gone := false
						for _, rm := range removes {
							gone = gone || rm == p.GetStoreId()
						}
						if gone || (cfg.rules && !okStore(p.GetStoreId())) {
							continue
						}
						if samePath(facts.labels[to], facts.labels[p.GetStoreId()], cfg.locLabels, cfg.isolation) {
							rc.Violate("c10.target", "peer-added-violating-isolation", "%s: operator %s for region %d adds a peer on store %d %v sharing the %s with the peer on store %d %v (isolation level %s; removes %v)", where, desc, op.RegionID(), to, facts.labels[to], cfg.isolation, p.GetStoreId(), facts.labels[p.GetStoreId()], cfg.isolation, removes)
						}
					}
				}
			}
		}
		// a replacement adds before it removes
		if len(adds) > 0 && len(removes) > 0 && firstRemove < lastAdd {
			oldRole, newRole := "unknown-role", "learner"
			if region != nil {
				if p := region.GetStorePeer(removes[0]); p != nil {
					oldRole = map[bool]string{true: "learner", false: "voter"}[core.IsLearner(p)]
				}
			}
			for i := 0; i < op.Len(); i++ {
				switch op.Step(i).(type) {
				case operator.AddPeer, operator.AddLightPeer, operator.PromoteLearner, operator.ChangePeerV2Enter:
					newRole = "voter"
				}
			}
			rc.Violate("c10.replace", "remove-before-add", "%s: operator %s for region %d removes the old %s peer before adding the %s replacement: %v", where, desc, op.RegionID(), oldRole, newRole, stepsOf(op))
		}
		// lowering the number of peers
		if len(adds) == 0 && len(removes) > 0 && region != nil && exact {
			if !cfg.rules {
				if len(region.GetVoters()) <= cfg.maxReplicas {
					rc.Violate("c10.remove", "removal-without-surplus", "%s: operator %s removes a peer of region %d (store %v) although it has %d voters, not more than max-replicas %d", where, desc, op.RegionID(), removes, len(region.GetVoters()), cfg.maxReplicas)
				}
			} else {
				// the peers that stay must still satisfy the rule: `count` voters on acceptable stores
				n := 0
				for _, p := range region.GetPeers() {
					gone := false
					for _, rm := range removes {
						gone = gone || rm == p.GetStoreId()
					}
					if !gone && !core.IsLearner(p) && okStore(p.GetStoreId()) {
						n++
					}
				}
				if n < cfg.maxReplicas {
					rc.Violate("c10.remove", "removal-leaves-rule-unsatisfied", "%s: operator %s removes the peer of region %d on store %v leaving %d voters on acceptable stores, fewer than the rule asks for (%d); peers %v", where, desc, op.RegionID(), removes, n, cfg.maxReplicas, region.GetPeers())
				}
			}
		}
	}
	untouched := map[uint64]bool{} // fresh stores no operator has targeted yet (their add-peer rate limit is unused)
	// checker operators the patrol loop admitted
	checkerDesc := map[string]bool{"make-up-replica": true, "add-rule-peer": true, "replace-down-replica": true, "replace-offline-replica": true, "replace-rule-down-peer": true,
		"replace-rule-offline-peer": true, "replace-rule-down-leader-peer": true, "replace-rule-offline-leader-peer": true, "move-to-better-location": true, "remove-extra-replica": true,
		"remove-extra-down-replica": true, "remove-extra-offline-replica": true, "remove-orphan-peer": true}
	ow.onNewOp = func(t *opTrack) {
		for i := 0; i < t.op.Len(); i++ {
			switch st := t.op.Step(i).(type) {
			case operator.AddPeer:
				untouched[st.ToStore] = false
			case operator.AddLearner:
				untouched[st.ToStore] = false
			case operator.AddLightPeer:
				untouched[st.ToStore] = false
			case operator.AddLightLearner:
				untouched[st.ToStore] = false
			}
		}
		if checkerDesc[t.desc] {
			judge("patrol", t.op, ow.pdRegionAt(t.region, t.op.RegionEpoch()), false, t.op.GetCreateTime())
		}
	}

	ow.start()
	simrt.Sleep(3 * time.Second)
	cc := ow.Cl.SimCheckerController()
	if cc == nil {
		rc.Anomaly("no checker controller")
		return
	}
	// ---- prober
	probe := func(final bool) {
		rs := ow.Srv.GetBasicCluster().GetRegions()
		if len(rs) == 0 {
			return
		}
		sort.Slice(rs, func(i, j int) bool { return rs[i].GetID() < rs[j].GetID() })
		region := rs[s.Choose(len(rs), "probe.region")]
		var ops []*operator.Operator
		T := time.Now()
		ow.onPD("probe", func() { ops = cc.CheckRegion(region) })
		rc.Extra["probes"]++
		for _, op := range ops {
			rc.Extra["probe_ops"]++
			if checkerDesc[op.Desc()] {
				judge("probe", op, region, true, T)
			}
		}
		// a region short of peers with a fresh, empty, unconstrained up store around gets a repair proposal
		need := cfg.maxReplicas
		have := 0
		for _, p := range region.GetPeers() {
			if okStore(p.GetStoreId()) || !cfg.rules {
				have++
			}
		}
		if len(ops) == 0 && len(region.GetPeers()) < need && have < need && len(region.GetPeers()) > 0 && ow.oc.GetOperator(region.GetID()) == nil {
			for id, st := range ow.M.Stores {
				_, up := facts.offline(id, T)
				_, roomy := facts.lowSpace(id, T)
				if !up || !roomy || !okStore(id) || !facts.surelyConnected(id, T, 10*time.Second) || region.GetStorePeer(id) != nil {
					continue
				}
				// empty (no peer of any region, no command on its way) and unlike every other store in every location label
				empty := true
				for _, r := range ow.M.Regions {
					if !r.Merged && r.PeerOnStore(id) != nil {
						empty = false
					}
				}
				unique := true
				for oid, ol := range facts.labels {
					if oid != id && (ol["zone"] == st.Labels["zone"] || ol["host"] == st.Labels["host"]) {
						unique = false
					}
				}
				if empty && unique && untouched[id] {
					rc.Violate("c10.repair", "no-repair-proposed", "region %d has %d peers %v, fewer than the %d required, store %d %v is up, connected, empty, roomy and unlike any other store, but the checkers propose nothing", region.GetID(), len(region.GetPeers()), region.GetPeers(), need, id, st.Labels)
				}
			}
		}
	}
	// ---- nemesis
	nextStore := uint64(nStores + 1)
	adminState := map[uint64]int{}
	nemesis := func() {
		ids := make([]uint64, 0, len(ow.M.Stores))
		for id := range ow.M.Stores {
			ids = append(ids, id)
		}
		sort.Slice(ids, func(i, j int) bool { return ids[i] < ids[j] })
		id := ids[s.Choose(len(ids), "nem.store")]
		st := ow.M.Stores[id]
		switch s.Choose(8, "nem.kind") {
		case 0: // store down
			if ow.storeUp[id] {
				ow.storeUp[id], st.Up = false, false
				downSince[id] = time.Now()
				rc.Extra["nem_store_down"]++
			}
		case 1: // store back
			if !ow.storeUp[id] {
				ow.storeUp[id], st.Up = true, true
				delete(downSince, id)
				rc.Extra["nem_store_up"]++
			}
		case 2: // offline
			if adminState[id] == 0 {
				facts.begin(facts.admin, id, rpcEv{state: 1})
				var err error
				ow.onPD("remove-store", func() { err = ow.Cl.RemoveStore(id, false) })
				if err != nil {
					facts.admin[id][len(facts.admin[id])-1].state = 0 // refused: still up
				} else {
					adminState[id] = 1
					rc.Extra["nem_store_offline"]++
				}
				facts.end(facts.admin, id)
			}
		case 3: // cancel the offline request
			if adminState[id] == 1 {
				facts.begin(facts.admin, id, rpcEv{state: 0})
				var err error
				ow.onPD("up-store", func() { err = ow.Cl.UpStore(id) })
				if err != nil {
					facts.admin[id][len(facts.admin[id])-1].state = 1 // refused (already a tombstone)
					adminState[id] = 2
				} else {
					adminState[id] = 0
					rc.Extra["nem_store_up_again"]++
				}
				facts.end(facts.admin, id)
			}
		case 4: // disk fills up / is cleaned
			if st.Used*10 > st.Capacity*7 {
				st.Used = st.Capacity / 1024
			} else {
				st.Used = st.Capacity - uint64(1+s.Choose(7, "nem.free"))<<30 // 1-7 GiB left of 1 TiB
				rc.Extra["nem_store_full"]++
			}
		case 5: // a fresh store joins
			if len(ow.M.Stores) < 10 {
				l := map[string]string{"zone": fmt.Sprintf("z%d", 10+nextStore), "host": fmt.Sprintf("h%d", 10+nextStore)}
				if s.Choose(2, "nem.newzone") == 0 {
					l = labelsOf(int(nextStore))
				}
				facts.labels[nextStore] = l
				untouched[nextStore] = true
				ow.addStore(nextStore, l)
				nextStore++
				rc.Extra["nem_store_added"]++
			}
		case 6, 7: // a peer disappears / appears behind PD's back
			rs := ow.M.SortedRegions()
			ow.foreignEventOn(rs[s.Choose(len(rs), "nem.region")])
		}
	}
	dur := time.Duration(60+s.Choose(200, "c10.dur")) * time.Second
	end := time.Now().Add(dur)
	for time.Now().Before(end) && len(rc.Viol) == 0 {
		simrt.Sleep(time.Duration(300+s.Choose(6000, "c10.gap")) * time.Millisecond)
		if s.Choose(3, "c10.what") == 0 {
			nemesis()
		} else {
			probe(false)
		}
	}
	ow.stop = true
	rc.Note("stores=%d max_replicas=%d location=%v isolation=%q rules=%v constraint=%v joint=%v regions=%d probes=%d probe_ops=%d admitted=%d", nStores, cfg.maxReplicas, cfg.locLabels, cfg.isolation,
		cfg.rules, cfg.constraint, joint, len(ow.M.SortedRegions()), rc.Extra["probes"], rc.Extra["probe_ops"], rc.Extra["operators_admitted"])
	rc.Nontrivial = rc.Extra["probe_ops"] > 0 && rc.Extra["operators_admitted"] > 0
	for ow.running > 0 {
		simrt.Sleep(time.Second)
	}
}

func stepsOf(op *operator.Operator) []string {
	var out []string
	for i := 0; i < op.Len(); i++ {
		out = append(out, op.Step(i).String())
	}
	return out
}

var _ = metapb.PeerRole_Voter
var _ simtikv.Peer

func init() {
	ec.Register(&ec.Profile{
		Property: "C10", Level: "exploration",
		Modes:    []string{"checkers"},
		Body:     func(rc *corepkg) { runCheckerWorld(rc) },
		MaxSteps: 600000, MaxTime: 30 * time.Minute,
		QuickBudget: 60 * time.Second, ThoroughBudget: 15 * time.Minute,
		Rule:        "one run = a bootstrapped real PD leader whose real coordinator patrols 1-6 regions with the replica checker or the placement-rule checker (max-replicas 1-5, location labels none / zone / zone+host, isolation level none / zone / host, optional label constraint, with/without joint consensus) over 3-10 labelled stores heartbeating through the real handlers; a TiKV model executes the commands; a nemesis takes stores down and up, offline (real RemoveStore) and up again (real UpStore), fills disks, adds fresh stores, removes / adds peers behind PD's back; a prober asks the real CheckerController for its proposal at arbitrary instants. Every proposal (probe or admitted by the patrol loop) is judged against what PD had certainly been told at that instant: no peer added on an offline, disconnected (>20s), full (<20% free), constraint-excluded, already-holding or isolation-violating store; replacement adds before it removes; a pure removal only with more voters than max-replicas (rules: only if the staying peers still satisfy the rule); a short region with a fresh empty unlike up store gets a proposal. non-trivial = at least one probe returned an operator and the patrol loop admitted one",
		Assumptions: []string{"partial claim: cluster states are those reached inside sampled simulated runs; the checkers are functions of the cluster view, and the universal statement over all cluster states needs enumeration of that view (another technique family)", "placement rules: a single voter rule (count, location labels, isolation level, optional label constraint); multi-rule fits are the subject of C12/C13"},
		Real:        realCluster, Stub: stubCluster,
	})
}
