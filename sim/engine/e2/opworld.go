package e2

import (
	"fmt"
	"sort"
	"time"

	"github.com/pingcap/kvproto/pkg/metapb"
	"github.com/pingcap/kvproto/pkg/pdpb"
	"github.com/tikv/pd/server/config"
	"github.com/tikv/pd/server/core"
	"github.com/tikv/pd/server/schedule"
	"github.com/tikv/pd/server/schedule/operator"

	"pdsim/engine/e1"
	"pdsim/simrt"
	"pdsim/simtikv"
)

// opWorld: the full loop - stores heartbeat through the real gRPC stream handlers, the real coordinator
// (checkers, schedulers, operator controller) answers with commands, the TiKV model executes them step by step.

type cmdRecord struct {
	step     int
	region   uint64
	resp     *pdpb.RegionHeartbeatResponse
	res      simtikv.CmdResult
	before   *metapb.Region
	leaderBf uint64
	voters   int
	after    []simtikv.Peer // region peers right after the command was handled
	leaderAf uint64
	inJoint  bool
	owner    *opTrack // the running operator the command belongs to (nil: foreign / late)
}

type opTrack struct {
	op         *operator.Operator
	firstSeen  int
	lastStatus operator.OpStatus
	started    bool
	left       bool
	leftAt     int // step at which the monitor saw it leave the running set
	desc       string
	region     uint64
	// model facts at admission
	foreignAtAdmit int
	admitAfter     int // the operator was admitted after this step
	originVoters   int
	originPeers    []simtikv.Peer
	originLeader   uint64
	applied        int // own commands applied so far
}

type opWorld struct {
	*World
	oc           *schedule.OperatorController
	streams      map[uint64]pdpb.PD_RegionHeartbeatClient
	cancels      map[uint64]func()
	storeUp      map[uint64]bool
	hbSeq        uint64
	foreign      map[uint64]int           // region -> number of foreign conf changes so far
	foreignAny   map[uint64]int           // region -> number of any foreign event (conf change, split, merge, leader change)
	foreignSeq   map[uint64][]uint64      // per foreign event: the heartbeat sequence number current when it happened
	pdSeq        map[uint64]uint64        // newest heartbeat PD had handled per region at the current monitor evaluation
	pdSeqHist    map[uint64][]seqAt       // ... and when each value was first observed
	foreignConfs map[uint64][]foreignConf // injected conf changes with the conf_ver they produced
	cmds         []cmdRecord
	ops          map[*operator.Operator]*opTrack
	opOrder      []*opTrack
	stop         bool
	running      int
	cmdDelay     time.Duration
	hbEvery      time.Duration
	onCmd        func(c *cmdRecord) // profile hook, called after a command was handled by the model
	onNewOp      func(t *opTrack)   // profile hook, called by the monitor when an operator is first seen running
	onOpEnd      func(t *opTrack)
	sentHB       map[uint64][]hbSeen  // region -> heartbeats sent (epoch, leader), newest last
	epochHist    map[uint64][]epochAt // region -> epochs PD served, with the step at which they were first observed
	prevMon      int
	mute         map[uint64]bool      // region -> its leader does not report to PD
	deafUntil    map[uint64]time.Time // region -> its stores ignore PD's commands until then (busy / stuck apply)
	cmdSent      map[string]int       // command content -> step at which PD first sent it
	curMon       int
}

type epochAt struct {
	step      int
	ver, conf uint64
	region    *core.RegionInfo // PD's view at that epoch
	leader    uint64
	at        time.Time
}

type hbSeen struct {
	ver, conf uint64
	leader    uint64
	seq       uint64
}

type opWorldOpts struct {
	worldOpts
	regions  int
	hbEvery  time.Duration
	cmdDelay time.Duration
}

func newOpWorld(rc *corepkg, o opWorldOpts) *opWorld {
	w := newWorld(rc, o.worldOpts)
	if w == nil {
		return nil
	}
	ow := &opWorld{World: w, streams: map[uint64]pdpb.PD_RegionHeartbeatClient{}, cancels: map[uint64]func(){}, storeUp: map[uint64]bool{},
		foreign: map[uint64]int{}, foreignAny: map[uint64]int{}, foreignConfs: map[uint64][]foreignConf{}, foreignSeq: map[uint64][]uint64{}, pdSeq: map[uint64]uint64{}, pdSeqHist: map[uint64][]seqAt{}, ops: map[*operator.Operator]*opTrack{}, cmdDelay: o.cmdDelay, hbEvery: o.hbEvery, sentHB: map[uint64][]hbSeen{}, epochHist: map[uint64][]epochAt{}, cmdSent: map[string]int{}, deafUntil: map[uint64]time.Time{}, mute: map[uint64]bool{}}
	ow.oc = w.Cl.SimOperatorController()
	if ow.oc == nil {
		rc.Anomaly("coordinator not running")
		return nil
	}
	for id := range w.M.Stores {
		ow.storeUp[id] = true
	}
	// pre-split the key space
	s := rc.S
	for i := 1; i < o.regions; i++ {
		rs := w.M.SortedRegions()
		r := rs[s.Choose(len(rs), "ow.split")]
		hi := r.End
		if hi < 0 {
			hi = w.M.NumKeys
		}
		if hi-r.Start < 2 {
			continue
		}
		ids := make([]uint64, len(r.Peers))
		nid := w.M.AllocID()
		for j := range ids {
			ids[j] = w.M.AllocID()
		}
		w.M.Split(r, r.Start+1+s.Choose(hi-r.Start-1, "ow.at"), nid, ids)
	}
	for _, r := range w.M.Regions {
		for i := range r.Peers {
			r.Peers[i].Pending = false
		}
	}
	// the bootstrap store has no labels at PD yet
	if o.labels != nil {
		ctx, cancel := e1.Ctx(5 * time.Second)
		w.E.W.Net.Dial(w.L.ClientURL).PutStore(ctx, &pdpb.PutStoreRequest{Header: &pdpb.RequestHeader{ClusterId: w.E.ClusterID}, Store: w.M.Stores[1].Meta()})
		cancel()
	}
	s.AddMonitor(ow.monitorOps)
	return ow
}

// start launches the store loops.
func (ow *opWorld) start() {
	s := ow.RC.S
	ids := make([]uint64, 0, len(ow.M.Stores))
	for id := range ow.M.Stores {
		ids = append(ids, id)
	}
	sort.Slice(ids, func(i, j int) bool { return ids[i] < ids[j] })
	for _, id := range ids {
		id := id
		ow.running++
		s.Spawn(-1, fmt.Sprintf("tikv-%d", id), func() {
			defer func() { ow.running-- }()
			ow.storeLoop(id)
		})
	}
}

func (ow *opWorld) addStore(id uint64, labels map[string]string) {
	st := ow.M.AddStore(id, labels)
	ctx, cancel := e1.Ctx(5 * time.Second)
	ow.E.W.Net.Dial(ow.L.ClientURL).PutStore(ctx, &pdpb.PutStoreRequest{Header: &pdpb.RequestHeader{ClusterId: ow.E.ClusterID}, Store: st.Meta()})
	cancel()
	ow.storeUp[id] = true
	ow.running++
	ow.RC.S.Spawn(-1, fmt.Sprintf("tikv-%d", id), func() {
		defer func() { ow.running-- }()
		ow.storeLoop(id)
	})
}

func (ow *opWorld) storeLoop(id uint64) {
	s := ow.RC.S
	for !ow.stop && len(ow.RC.Viol) == 0 {
		if ow.storeUp[id] {
			ow.storeHeartbeat(ow.M.Stores[id])
			st := ow.streams[id]
			if st == nil {
				ctx, cancel := e1.Ctx(10 * time.Hour)
				c, err := ow.E.W.Net.Dial(ow.L.ClientURL).RegionHeartbeat(ctx)
				if err != nil {
					cancel()
				} else {
					st = c
					ow.streams[id], ow.cancels[id] = c, cancel
					ow.running++
					s.Spawn(-1, fmt.Sprintf("tikv-%d-recv", id), func() {
						defer func() { ow.running-- }()
						ow.recvLoop(id, c)
					})
				}
			}
			if st != nil {
				for _, r := range ow.M.SortedRegions() {
					if lp := r.LeaderPeer(); lp != nil && lp.StoreID == id {
						ow.sendRegionHB(r)
					} else if lp != nil && !ow.storeUp[lp.StoreID] && r.PeerOnStore(id) != nil {
						// the leader's store is gone: the surviving voters elect a new leader if they have a quorum
						ow.tryElect(r)
					}
				}
			}
		} else if c := ow.cancels[id]; c != nil {
			c()
			delete(ow.streams, id)
			delete(ow.cancels, id)
		}
		simrt.Sleep(ow.hbEvery + time.Duration(s.Choose(200, "hb.jitter"))*time.Millisecond)
	}
	if c := ow.cancels[id]; c != nil {
		c()
	}
}

func (ow *opWorld) tryElect(r *simtikv.Region) {
	up := 0
	var cand *simtikv.Peer
	for i := range r.Peers {
		p := &r.Peers[i]
		if p.Role == metapb.PeerRole_Learner {
			continue
		}
		if ow.storeUp[p.StoreID] {
			up++
			if cand == nil && (p.Role == metapb.PeerRole_Voter || p.Role == metapb.PeerRole_IncomingVoter) {
				cand = p
			}
		}
	}
	if cand != nil && up*2 > r.Voters() {
		r.Elect(cand.ID)
		ow.noteForeign(r.ID)
	}
}

// sendRegionHB sends the heartbeat of r on its leader's stream.
func (ow *opWorld) sendRegionHB(r *simtikv.Region) {
	lp := r.LeaderPeer()
	if lp == nil || !ow.storeUp[lp.StoreID] || r.Merged || ow.mute[r.ID] {
		return
	}
	st := ow.streams[lp.StoreID]
	if st == nil {
		return
	}
	// snapshots finish: pending peers on up stores catch up
	for i := range r.Peers {
		if r.Peers[i].Pending && ow.storeUp[r.Peers[i].StoreID] && ow.RC.S.Choose(2, "hb.caughtup") == 0 {
			r.Peers[i].Pending = false
		}
	}
	ow.hbSeq++
	r.Keys = ow.hbSeq // sequence marker: PD caches approximate_keys, so the monitor knows which heartbeat it has handled
	hb := ow.M.Heartbeat(r)
	hb.Header = &pdpb.RequestHeader{ClusterId: ow.E.ClusterID}
	ow.sentHB[r.ID] = append(ow.sentHB[r.ID], hbSeen{r.Ver, r.ConfVer, r.Leader, ow.hbSeq})
	if n := len(ow.sentHB[r.ID]); n > 64 {
		ow.sentHB[r.ID] = ow.sentHB[r.ID][n-64:]
	}
	if err := st.Send(hb); err != nil {
		if c := ow.cancels[lp.StoreID]; c != nil {
			c()
		}
		delete(ow.streams, lp.StoreID)
		delete(ow.cancels, lp.StoreID)
	}
}

func (ow *opWorld) recvLoop(id uint64, st pdpb.PD_RegionHeartbeatClient) {
	s := ow.RC.S
	for !ow.stop {
		resp, err := st.Recv()
		if err != nil {
			return
		}
		if resp.GetHeader().GetError() != nil || resp.GetRegionId() == 0 {
			continue // error reply or keep-alive
		}
		if !ow.storeUp[id] {
			continue
		}
		// the store executes the command after a while
		if ow.cmdDelay > 0 {
			simrt.Sleep(time.Duration(s.Choose(int(ow.cmdDelay/time.Millisecond)+1, "cmd.delay")) * time.Millisecond)
		}
		ow.applyCmd(resp)
	}
}

func (ow *opWorld) applyCmd(resp *pdpb.RegionHeartbeatResponse) {
	if until, ok := ow.deafUntil[resp.GetRegionId()]; ok && time.Now().Before(until) {
		ow.RC.Extra["cmd_ignored_deaf"]++
		return
	}
	r := ow.M.Regions[resp.GetRegionId()]
	rec := cmdRecord{step: ow.RC.S.Step, region: resp.GetRegionId(), resp: resp}
	if r != nil {
		rec.before = r.Meta()
		rec.leaderBf = r.Leader
		rec.voters = r.Voters()
	}
	rec.res = ow.M.Apply(resp, ow.M.AllocID)
	ow.cmds = append(ow.cmds, rec)
	ow.RC.Extra["cmd_"+rec.res.Kind+map[bool]string{true: "_applied", false: "_refused"}[rec.res.Applied]]++
	if err := ow.M.CheckInvariants(); err != nil {
		panic(err)
	}
	if rec.res.Applied {
		// a command that does not belong to the operator currently running for the region (a late command of an
		// earlier, already replaced or cancelled operator) is a foreign change from that operator's point of view
		own := false
		// a command PD sent while an operator that has ended since (replaced, cancelled) was running is that operator's
		// command, even if the operator running now contains the same step further down its list
		fromEnded := false
		for _, t := range ow.opOrder {
			if t.left && t.region == rec.region && cmdMatchesOp(resp, t.op) && ow.cmdSent[cmdKey(resp)] > t.admitAfter && ow.cmdSent[cmdKey(resp)] <= t.leftAt {
				fromEnded = true
			}
		}
		for _, t := range ow.opOrder {
			if fromEnded {
				break
			}
			// ... and a step far down the operator's list is not "its own step" yet: PD accounts for the finished and the
			// current step only (one step may have needed no command)
			if idx := cmdMatchIndex(resp, t.op); !t.left && t.region == rec.region && idx >= 0 && idx <= t.applied+1 && ow.cmdSent[cmdKey(resp)] > t.admitAfter {
				own = true
				ow.cmds[len(ow.cmds)-1].owner = t
				t.applied++
			}
		}
		if r != nil {
			c := &ow.cmds[len(ow.cmds)-1]
			c.after, c.leaderAf, c.inJoint = append([]simtikv.Peer(nil), r.Peers...), r.Leader, r.InJoint()
		}
		if !own {
			ow.noteForeign(rec.region)
			if rec.res.Kind != "transfer-leader" {
				ow.foreign[rec.region]++
			}
			ow.RC.Extra["late_foreign_command"]++
			if rec.res.Kind == "merge" {
				ow.noteForeign(resp.GetMerge().GetTarget().GetId())
			}
		}
	}
	if ow.onCmd != nil {
		ow.onCmd(&ow.cmds[len(ow.cmds)-1])
	}
	if rec.res.Applied && r != nil {
		// report the change at once, as TiKV does after a conf change / split / merge
		if rec.res.Kind == "merge" {
			if t := ow.M.Regions[resp.GetMerge().GetTarget().GetId()]; t != nil {
				ow.sendRegionHB(t)
			}
			return
		}
		ow.sendRegionHB(r)
		if rec.res.Kind == "split" {
			for _, o := range ow.M.SortedRegions() {
				if o.End == r.Start {
					ow.sendRegionHB(o)
				}
			}
		}
	}
}

// monitorOps tracks the operators of the running set.
func (ow *opWorld) monitorOps() {
	running := ow.oc.GetOperators()
	regions := ow.Srv.GetBasicCluster().GetRegions()
	ow.prevMon, ow.curMon = ow.curMon, ow.RC.S.Step
	for _, r := range regions {
		if q := uint64(r.GetApproximateKeys()); q != ow.pdSeq[r.GetID()] {
			ow.pdSeq[r.GetID()] = q
			ow.pdSeqHist[r.GetID()] = append(ow.pdSeqHist[r.GetID()], seqAt{q, time.Now()})
		}
		h := ow.epochHist[r.GetID()]
		e := r.GetRegionEpoch()
		if n := len(h); n == 0 || h[n-1].ver != e.GetVersion() || h[n-1].conf != e.GetConfVer() || h[n-1].leader != r.GetLeader().GetId() {
			ow.epochHist[r.GetID()] = append(h, epochAt{ow.RC.S.Step, e.GetVersion(), e.GetConfVer(), r, r.GetLeader().GetId(), time.Now()})
		}
	}
	inSet := map[*operator.Operator]bool{}
	for _, op := range running {
		inSet[op] = true
		t := ow.ops[op]
		if t == nil {
			t = &opTrack{op: op, firstSeen: ow.RC.S.Step, admitAfter: ow.prevMon, lastStatus: op.Status(), desc: op.Desc(), region: op.RegionID(), foreignAtAdmit: ow.foreignSeenByPD(op.RegionID(), op.GetCreateTime())}
			if r := ow.M.Regions[op.RegionID()]; r != nil {
				// built on an epoch the region has already left (PD had not heard of the latest change yet, e.g. the last
				// step of the operator it replaces): that change is a foreign one for this operator
				if e := op.RegionEpoch(); e.GetConfVer() != r.ConfVer || e.GetVersion() != r.Ver {
					t.foreignAtAdmit = -1
				}
				t.originVoters = r.Voters()
				t.originPeers = append([]simtikv.Peer(nil), r.Peers...)
				t.originLeader = r.Leader
			}
			ow.ops[op] = t
			ow.opOrder = append(ow.opOrder, t)
			ow.RC.Extra["operators_admitted"]++
			ow.RC.Extra["op:"+op.Desc()]++
			if ow.onNewOp != nil {
				ow.onNewOp(t)
			}
		}
	}
	for _, t := range ow.opOrder {
		if t.left {
			continue
		}
		if !inSet[t.op] {
			t.left = true
			t.leftAt = ow.RC.S.Step
			ow.RC.Extra["operators_ended_"+operator.OpStatusToString(t.op.Status())]++
			if ow.onOpEnd != nil {
				ow.onOpEnd(t)
			}
		}
	}
}

// noteForeign records an event on a region that no running operator ordered.
func (ow *opWorld) noteForeign(region uint64) {
	ow.foreignAny[region]++
	ow.foreignSeq[region] = append(ow.foreignSeq[region], ow.hbSeq)
}

type seqAt struct {
	seq uint64
	at  time.Time
}

// foreignSeenByPD: how many foreign events of the region PD had certainly learned about (through a heartbeat sent
// after the event and handled at a strictly earlier instant) before an operator was built at time `created`. Events
// PD had not seen yet count as foreign changes for that operator although they precede it in model time: the
// operator was planned on the state before them.
func (ow *opWorld) foreignSeenByPD(region uint64, created time.Time) int {
	var seen uint64
	for _, h := range ow.pdSeqHist[region] {
		if h.at.Before(created) && h.seq > seen {
			seen = h.seq
		}
	}
	n := 0
	for _, at := range ow.foreignSeq[region] {
		if seen > at {
			n++
		}
	}
	return n
}

// pdRegionAt returns PD's view of a region when it had the given epoch (nil if never observed).
func (ow *opWorld) pdRegionAt(id uint64, e *metapb.RegionEpoch) *core.RegionInfo {
	h := ow.epochHist[id]
	for i := len(h) - 1; i >= 0; i-- {
		if h[i].ver == e.GetVersion() && h[i].conf == e.GetConfVer() {
			return h[i].region
		}
	}
	return nil
}

// pdRegionAtTime returns PD's view of a region with the given epoch as of time T (the newest one observed not after
// T), and whether its leader is certain (no other leader was observed within a second of T).
func (ow *opWorld) pdRegionAtTime(id uint64, e *metapb.RegionEpoch, T time.Time) (*core.RegionInfo, bool) {
	h := ow.epochHist[id]
	var pick *epochAt
	for i := range h {
		if h[i].ver == e.GetVersion() && h[i].conf == e.GetConfVer() && !h[i].at.After(T) {
			pick = &h[i]
		}
	}
	if pick == nil {
		return nil, false
	}
	// (an observation may lag the change by some scheduler steps, not by simulated seconds)
	// ... and the leader of the picked view must have been observed well before T (a leader change PD handled at the
	// very instant the operator was built may have come before or after the scheduler looked at the region)
	sure := T.Sub(pick.at) >= time.Second || pick == &h[0]
	for i := range h {
		if d := h[i].at.Sub(T); d > -time.Second && d < time.Second && h[i].leader != pick.leader {
			sure = false
		}
	}
	return pick.region, sure
}

// pdRegion returns PD's cached view of a region.
func (ow *opWorld) pdRegion(id uint64) *core.RegionInfo {
	return ow.Srv.GetBasicCluster().GetRegion(id)
}

func scheduleTweak(maxReplicas int, labels []string, isolation string, rules bool) func(*config.Config) {
	return func(c *config.Config) {
		c.Replication.MaxReplicas = uint64(maxReplicas)
		c.Replication.LocationLabels = labels
		c.Replication.IsolationLevel = isolation
		c.Replication.EnablePlacementRules = rules
		c.Schedule.MaxStoreDownTime.Duration = 30 * time.Second
		c.Schedule.EnableJointConsensus = true
		c.Schedule.SplitMergeInterval.Duration = time.Minute
		c.Schedule.PatrolRegionInterval.Duration = 200 * time.Millisecond
	}
}

// cmdMatchesOp tells whether a command is one of the steps of op.
// foreignConf: one injected configuration change of a region.
type foreignConf struct {
	step  int
	post  uint64 // conf_ver after the change
	kind  string // "add-learner" | "remove"
	store uint64
}

// accountable: could PD's per-step accounting take the foreign change for one of the operator's own steps?
// (a foreign removal on a store the operator removes from is indistinguishable; a foreign peer has a fresh id)
func (fc foreignConf) accountable(op *operator.Operator) bool {
	for i := 0; i < op.Len(); i++ {
		switch st := op.Step(i).(type) {
		case operator.RemovePeer:
			if fc.kind == "remove" && st.FromStore == fc.store {
				return true
			}
		case operator.MergeRegion, operator.SplitRegion:
			return true // no conf_ver accounting for these
		}
	}
	return false
}

func (t *opTrack) stepsText() string {
	out := ""
	for i := 0; i < t.op.Len(); i++ {
		out += fmt.Sprintf("[%d] %v; ", i, t.op.Step(i))
	}
	return out
}

// cancelStepHint: the number of own commands applied before the end (diagnostics only).
func (t *opTrack) cancelStepHint() int { return t.applied }

// cmdMatchIndex returns the index of the first step of op the command can belong to (-1: none).
func cmdMatchIndex(resp *pdpb.RegionHeartbeatResponse, op *operator.Operator) int {
	for i := 0; i < op.Len(); i++ {
		switch st := op.Step(i).(type) {
		case operator.AddPeer:
			if cp := resp.GetChangePeer(); cp != nil && cp.GetChangeType().String() == "AddNode" && cp.GetPeer().GetId() == st.PeerID {
				return i
			}
		case operator.AddLightPeer:
			if cp := resp.GetChangePeer(); cp != nil && cp.GetChangeType().String() == "AddNode" && cp.GetPeer().GetId() == st.PeerID {
				return i
			}
		case operator.AddLearner:
			if cp := resp.GetChangePeer(); cp != nil && cp.GetChangeType().String() == "AddLearnerNode" && cp.GetPeer().GetId() == st.PeerID {
				return i
			}
		case operator.AddLightLearner:
			if cp := resp.GetChangePeer(); cp != nil && cp.GetChangeType().String() == "AddLearnerNode" && cp.GetPeer().GetId() == st.PeerID {
				return i
			}
		case operator.PromoteLearner:
			if cp := resp.GetChangePeer(); cp != nil && cp.GetChangeType().String() == "AddNode" && cp.GetPeer().GetId() == st.PeerID {
				return i
			}
		case operator.RemovePeer:
			if cp := resp.GetChangePeer(); cp != nil && cp.GetChangeType().String() == "RemoveNode" && cp.GetPeer().GetStoreId() == st.FromStore {
				return i
			}
		case operator.TransferLeader:
			if tl := resp.GetTransferLeader(); tl != nil && tl.GetPeer().GetStoreId() == st.ToStore {
				return i
			}
		case operator.ChangePeerV2Enter:
			if v2 := resp.GetChangePeerV2(); v2 != nil && len(v2.GetChanges()) == len(st.PromoteLearners)+len(st.DemoteVoters) && len(v2.GetChanges()) > 0 {
				return i
			}
		case operator.ChangePeerV2Leave:
			if v2 := resp.GetChangePeerV2(); v2 != nil && len(v2.GetChanges()) == 0 {
				return i
			}
		case operator.MergeRegion:
			if resp.GetMerge() != nil {
				return i
			}
		case operator.SplitRegion:
			if resp.GetSplitRegion() != nil {
				return i
			}
		case operator.DemoteFollower:
			if cp := resp.GetChangePeer(); cp != nil && cp.GetChangeType().String() == "AddLearnerNode" && cp.GetPeer().GetId() == st.PeerID {
				return i
			}
		}
	}
	return -1
}

func cmdMatchesOp(resp *pdpb.RegionHeartbeatResponse, op *operator.Operator) bool {
	return cmdMatchIndex(resp, op) >= 0
}

// epochServedBetween tells whether PD served (ver, conf) for the region at some instant of the steps (from, to].
func (ow *opWorld) epochServedBetween(region uint64, ver, conf uint64, from, to int) bool {
	h := ow.epochHist[region]
	for i, e := range h {
		if e.ver != ver || e.conf != conf || e.step > to {
			continue
		}
		// served from e.step until the next entry
		if i+1 == len(h) || h[i+1].step > from {
			return true
		}
	}
	return false
}

func cmdKey(resp *pdpb.RegionHeartbeatResponse) string {
	e := resp.GetRegionEpoch()
	k := fmt.Sprintf("%d|%d|%d|%d|", resp.GetRegionId(), e.GetVersion(), e.GetConfVer(), resp.GetTargetPeer().GetId())
	switch {
	case resp.GetChangePeer() != nil:
		k += fmt.Sprintf("cp|%v|%d|%d", resp.GetChangePeer().GetChangeType(), resp.GetChangePeer().GetPeer().GetId(), resp.GetChangePeer().GetPeer().GetStoreId())
	case resp.GetChangePeerV2() != nil:
		k += fmt.Sprintf("v2|%d", len(resp.GetChangePeerV2().GetChanges()))
	case resp.GetTransferLeader() != nil:
		k += fmt.Sprintf("tl|%d", resp.GetTransferLeader().GetPeer().GetId())
	case resp.GetMerge() != nil:
		k += fmt.Sprintf("mg|%d", resp.GetMerge().GetTarget().GetId())
	case resp.GetSplitRegion() != nil:
		k += "sp"
	}
	return k
}

// noteSent records the step at which PD first sent a command (called from the stream send hook).
func (ow *opWorld) noteSent(resp *pdpb.RegionHeartbeatResponse) {
	if resp.GetRegionId() == 0 {
		return
	}
	k := cmdKey(resp)
	if _, ok := ow.cmdSent[k]; !ok {
		ow.cmdSent[k] = ow.RC.S.Step
	}
}
