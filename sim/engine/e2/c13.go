package e2

import (
	"bytes"
	"context"
	"encoding/hex"
	"encoding/json"
	"fmt"
	"sort"
	"strings"
	"time"

	"github.com/pingcap/kvproto/pkg/metapb"
	"github.com/tikv/pd/server/core"
	"github.com/tikv/pd/server/kv"
	"github.com/tikv/pd/server/schedule/placement"

	ec "pdsim/engine/core"
	"pdsim/simetcd"
)

// C13: placement rule updates are all-or-nothing and the key-range index is exact.

// ---- reference model: a naive list of accepted rules and group settings

type refRule struct {
	Group, ID  string
	Index      int
	Override   bool
	Start, End string // hex; End "" = unbounded
	Role       string
	Count      int
}

type refGroup struct {
	Index    int
	Override bool
}

type refModel struct {
	rules  map[[2]string]refRule
	groups map[string]refGroup // only non-default settings
}

func newRefModel() *refModel {
	return &refModel{rules: map[[2]string]refRule{}, groups: map[string]refGroup{}}
}

func (m *refModel) clone() *refModel {
	c := newRefModel()
	for k, v := range m.rules {
		c.rules[k] = v
	}
	for k, v := range m.groups {
		c.groups[k] = v
	}
	return c
}

func (m *refModel) setGroup(id string, g refGroup) {
	if g.Index == 0 && !g.Override {
		delete(m.groups, id)
	} else {
		m.groups[id] = g
	}
}

// documented order: [GroupIndex, GroupID, Index, ID]
func (m *refModel) sorted(rs []refRule) []refRule {
	sort.Slice(rs, func(i, j int) bool {
		a, b := rs[i], rs[j]
		ga, gb := m.groups[a.Group].Index, m.groups[b.Group].Index
		switch {
		case ga != gb:
			return ga < gb
		case a.Group != b.Group:
			return a.Group < b.Group
		case a.Index != b.Index:
			return a.Index < b.Index
		}
		return a.ID < b.ID
	})
	return rs
}

func (m *refModel) all() []refRule {
	var rs []refRule
	for _, r := range m.rules {
		rs = append(rs, r)
	}
	return m.sorted(rs)
}

func contains(r refRule, key string) bool { // key hex, compared as bytes
	k, _ := hex.DecodeString(key)
	s, _ := hex.DecodeString(r.Start)
	e, _ := hex.DecodeString(r.End)
	return bytes.Compare(k, s) >= 0 && (len(e) == 0 || bytes.Compare(k, e) < 0)
}

func (m *refModel) byKey(key string) []refRule {
	var rs []refRule
	for _, r := range m.rules {
		if contains(r, key) {
			rs = append(rs, r)
		}
	}
	return m.sorted(rs)
}

// applied: rule override disables the rules of the same group ordered before it; group override disables
// the rules of all groups ordered before it.
func (m *refModel) applied(rs []refRule) []refRule {
	var res []refRule
	i := 0
	for i < len(rs) {
		j := i
		for j < len(rs) && rs[j].Group == rs[i].Group {
			j++
		}
		grp := rs[i:j]
		last := 0
		for k, r := range grp {
			if r.Override {
				last = k
			}
		}
		if m.groups[rs[i].Group].Override {
			res = nil
		}
		res = append(res, grp[last:]...)
		i = j
	}
	return res
}

// boundaries: every distinct non-empty start or end key of a configured rule.
func (m *refModel) boundaries() []string {
	set := map[string]bool{}
	for _, r := range m.rules {
		if r.Start != "" {
			set[r.Start] = true
		}
		if r.End != "" {
			set[r.End] = true
		}
	}
	var out []string
	for k := range set {
		out = append(out, k)
	}
	sort.Slice(out, func(i, j int) bool {
		a, _ := hex.DecodeString(out[i])
		b, _ := hex.DecodeString(out[j])
		return bytes.Compare(a, b) < 0
	})
	return out
}

// valid: every key has a rule set with at least one leader/voter and at most one leader.
func (m *refModel) valid() (bool, string) {
	points := append([]string{""}, m.boundaries()...)
	for _, p := range points {
		ap := m.applied(m.byKey(p))
		leaders, voters := 0, 0
		for _, r := range ap {
			switch r.Role {
			case "leader":
				leaders += r.Count
			case "voter":
				voters += r.Count
			}
		}
		if len(m.byKey(p)) == 0 {
			return false, "no rule for key " + p
		}
		if leaders > 1 {
			return false, "several leaders at key " + p
		}
		if leaders+voters < 1 {
			return false, "no voter or leader at key " + p
		}
	}
	return true, ""
}

func ids(rs []refRule) string {
	var b strings.Builder
	for _, r := range rs {
		fmt.Fprintf(&b, "%s/%s ", r.Group, r.ID)
	}
	return b.String()
}

func idsOf(rs []*placement.Rule) string {
	var b strings.Builder
	for _, r := range rs {
		fmt.Fprintf(&b, "%s/%s ", r.GroupID, r.ID)
	}
	return b.String()
}

func toPD(r refRule) *placement.Rule {
	return &placement.Rule{GroupID: r.Group, ID: r.ID, Index: r.Index, Override: r.Override, StartKeyHex: r.Start, EndKeyHex: r.End, Role: placement.PeerRoleType(r.Role), Count: r.Count}
}

func ruleJSON(r *placement.Rule) string {
	b, _ := json.Marshal(map[string]interface{}{"g": r.GroupID, "id": r.ID, "idx": r.Index, "ov": r.Override, "s": strings.ToLower(hex.EncodeToString(r.StartKey)), "e": strings.ToLower(hex.EncodeToString(r.EndKey)), "role": r.Role, "n": r.Count})
	return string(b)
}

func refJSON(r refRule) string {
	b, _ := json.Marshal(map[string]interface{}{"g": r.Group, "id": r.ID, "idx": r.Index, "ov": r.Override, "s": r.Start, "e": r.End, "role": r.Role, "n": r.Count})
	return string(b)
}

var c13Keys = []string{"", "10", "20", "30", "40", "50"}

// compareWithRef checks every observable of a RuleManager against the reference.
func compareWithRef(rc *corepkg, m *placement.RuleManager, ref *refModel, what string) bool {
	all := m.GetAllRules()
	want := ref.all()
	if len(all) != len(want) {
		rc.Violate("c13.index", "rule-set-differs", "%s: serves %d rules [%s], reference has %d [%s]", what, len(all), idsOf(all), len(want), ids(want))
		return false
	}
	for i := range all {
		if ruleJSON(all[i]) != refJSON(want[i]) {
			rc.Violate("c13.index", "rule-set-differs", "%s: rule #%d is %s, reference has %s", what, i, ruleJSON(all[i]), refJSON(want[i]))
			return false
		}
	}
	gs := map[string]refGroup{}
	for _, g := range m.GetRuleGroups() {
		if g.Index != 0 || g.Override {
			gs[g.ID] = refGroup{g.Index, g.Override}
		}
	}
	if fmt.Sprint(gs) != fmt.Sprint(ref.groups) {
		rc.Violate("c13.index", "groups-differ", "%s: serves groups %v, reference has %v", what, gs, ref.groups)
		return false
	}
	probe := append([]string{"05", "15", "25", "35", "45", "55", "ff"}, c13Keys...)
	for _, k := range probe {
		kb, _ := hex.DecodeString(k)
		got := idsOf(m.GetRulesByKey(kb))
		if w := ids(ref.byKey(k)); got != w {
			rc.Violate("c13.index", "rules-by-key-differ", "%s: GetRulesByKey(%q) = [%s], the configured rules containing the key are [%s]", what, k, got, w)
			return false
		}
	}
	bounds := ref.boundaries()
	for i := 0; i < len(c13Keys); i++ {
		for j := i + 1; j <= len(c13Keys); j++ {
			start := c13Keys[i]
			end := ""
			if j < len(c13Keys) {
				end = c13Keys[j]
			}
			sb, _ := hex.DecodeString(start)
			eb, _ := hex.DecodeString(end)
			// split keys strictly inside (start, end)
			var wantKeys []string
			for _, b := range bounds {
				bb, _ := hex.DecodeString(b)
				if bytes.Compare(bb, sb) > 0 && (len(eb) == 0 || bytes.Compare(bb, eb) < 0) {
					wantKeys = append(wantKeys, b)
				}
			}
			var gotKeys []string
			for _, k := range m.GetSplitKeys(sb, eb) {
				gotKeys = append(gotKeys, hex.EncodeToString(k))
			}
			if fmt.Sprint(gotKeys) != fmt.Sprint(wantKeys) {
				rc.Violate("c13.index", "split-keys-differ", "%s: GetSplitKeys(%q,%q) = %v, segment boundaries strictly inside are %v", what, start, end, gotKeys, wantKeys)
				return false
			}
			region := core.NewRegionInfo(&metapb.Region{Id: 1, StartKey: sb, EndKey: eb}, nil)
			got := idsOf(m.GetRulesForApplyRegion(region))
			w := ""
			if len(wantKeys) == 0 {
				w = ids(ref.applied(ref.byKey(start)))
			}
			if got != w {
				rc.Violate("c13.index", "rules-for-region-differ", "%s: GetRulesForApplyRegion([%q,%q)) = [%s], expected [%s] (boundaries inside: %v)", what, start, end, got, w, wantKeys)
				return false
			}
		}
	}
	return true
}

func servedDigest(m *placement.RuleManager) string {
	var b strings.Builder
	for _, r := range m.GetAllRules() {
		b.WriteString(ruleJSON(r))
	}
	for _, g := range m.GetRuleGroups() {
		fmt.Fprintf(&b, "|%s:%d:%v", g.ID, g.Index, g.Override)
	}
	for _, k := range []string{"", "05", "10", "15", "20", "25", "30", "35", "40", "45", "50", "55"} {
		kb, _ := hex.DecodeString(k)
		b.WriteString("#" + idsOf(m.GetRulesByKey(kb)))
		region := core.NewRegionInfo(&metapb.Region{Id: 1, StartKey: kb, EndKey: append(append([]byte{}, kb...), 0)}, nil)
		b.WriteString("@" + idsOf(m.GetRulesForApplyRegion(region)))
	}
	for _, bn := range m.GetAllGroupBundles() {
		fmt.Fprintf(&b, "%s,%d,%v,%d;", bn.ID, bn.Index, bn.Override, len(bn.Rules))
	}
	return b.String()
}

// ---- operations

type c13Op struct {
	name  string
	apply func(m *placement.RuleManager) error
	ref   func(r *refModel)
}

func genRefRule(rc *corepkg) refRule {
	s := rc.S
	r := refRule{Group: []string{"pd", "g1", "g11"}[s.Choose(3, "r.group")], ID: []string{"default", "a", "b", "ab", "c"}[s.Choose(5, "r.id")], Index: s.Choose(3, "r.index"),
		Override: s.Choose(5, "r.override") == 0, Role: []string{"voter", "voter", "leader", "follower", "learner"}[s.Choose(5, "r.role")], Count: 1 + s.Choose(3, "r.count")}
	if r.Role == "leader" {
		r.Count = 1
	}
	i := s.Choose(len(c13Keys), "r.start")
	r.Start = c13Keys[i]
	// end: unbounded or a later key (nested / adjacent ranges arise naturally)
	if j := i + 1 + s.Choose(len(c13Keys)-i, "r.end"); j < len(c13Keys) {
		r.End = c13Keys[j]
	}
	return r
}

func genC13Op(rc *corepkg, ref *refModel) c13Op {
	s := rc.S
	existing := ref.all()
	pick := func() refRule {
		if len(existing) == 0 {
			return genRefRule(rc)
		}
		return existing[s.Choose(len(existing), "op.pick")]
	}
	switch s.Choose(10, "op.kind") {
	case 0, 1, 2:
		r := genRefRule(rc)
		return c13Op{name: "SetRule " + refJSON(r), apply: func(m *placement.RuleManager) error { return m.SetRule(toPD(r)) }, ref: func(m *refModel) { m.rules[[2]string{r.Group, r.ID}] = r }}
	case 3:
		r := pick()
		return c13Op{name: "DeleteRule " + r.Group + "/" + r.ID, apply: func(m *placement.RuleManager) error { return m.DeleteRule(r.Group, r.ID) }, ref: func(m *refModel) { delete(m.rules, [2]string{r.Group, r.ID}) }}
	case 4:
		n := 2 + s.Choose(3, "op.n")
		var rs []refRule
		for i := 0; i < n; i++ {
			rs = append(rs, genRefRule(rc))
		}
		return c13Op{name: fmt.Sprintf("SetRules x%d", n), apply: func(m *placement.RuleManager) error {
			var l []*placement.Rule
			for _, r := range rs {
				l = append(l, toPD(r))
			}
			return m.SetRules(l)
		}, ref: func(m *refModel) {
			for _, r := range rs {
				m.rules[[2]string{r.Group, r.ID}] = r
			}
		}}
	case 5:
		// batch: an arbitrary sequence of deletes (by id or id prefix) and adds in one atomic update; the same rule may be
		// added and deleted (or added twice) within the batch - the operations apply in order
		type bop struct {
			add    bool
			r      refRule
			prefix bool
		}
		n := 2 + s.Choose(3, "op.bn")
		var ops []bop
		for i := 0; i < n; i++ {
			switch s.Choose(4, "op.bkind") {
			case 0:
				ops = append(ops, bop{add: true, r: genRefRule(rc)})
			case 1:
				ops = append(ops, bop{r: pick(), prefix: s.Choose(3, "op.prefix") == 0})
			case 2:
				// re-set an existing rule (same key, possibly other content) ...
				r := genRefRule(rc)
				e := pick()
				r.Group, r.ID = e.Group, e.ID
				ops = append(ops, bop{add: true, r: r})
			case 3:
				// ... or delete what an earlier operation of this batch has touched
				if len(ops) > 0 {
					ops = append(ops, bop{r: ops[s.Choose(len(ops), "op.bprev")].r})
				} else {
					ops = append(ops, bop{r: pick()})
				}
			}
		}
		// a delete-by-prefix after an add of a matching rule in the same batch is ambiguous (the property does not say
		// whether the prefix ranges over the configured rules or over the batch so far): not generated
		for i := range ops {
			if !ops[i].add && ops[i].prefix {
				for _, e := range ops[:i] {
					if e.add && e.r.Group == ops[i].r.Group && strings.HasPrefix(e.r.ID, ops[i].r.ID) {
						ops[i].prefix = false
					}
				}
			}
		}
		name := "Batch"
		for _, o := range ops {
			if o.add {
				name += " add " + refJSON(o.r)
			} else {
				name += fmt.Sprintf(" del %s/%s prefix=%v", o.r.Group, o.r.ID, o.prefix)
			}
		}
		return c13Op{name: name, apply: func(m *placement.RuleManager) error {
			var l []placement.RuleOp
			for _, o := range ops {
				if o.add {
					l = append(l, placement.RuleOp{Rule: toPD(o.r), Action: placement.RuleOpAdd})
				} else {
					l = append(l, placement.RuleOp{Rule: &placement.Rule{GroupID: o.r.Group, ID: o.r.ID}, Action: placement.RuleOpDel, DeleteByIDPrefix: o.prefix})
				}
			}
			return m.Batch(l)
		}, ref: func(m *refModel) {
			for _, o := range ops {
				switch {
				case o.add:
					m.rules[[2]string{o.r.Group, o.r.ID}] = o.r
				case o.prefix:
					for k := range m.rules {
						if k[0] == o.r.Group && strings.HasPrefix(k[1], o.r.ID) {
							delete(m.rules, k)
						}
					}
				default:
					delete(m.rules, [2]string{o.r.Group, o.r.ID})
				}
			}
		}}
	case 6:
		id := []string{"pd", "g1", "g11"}[s.Choose(3, "g.id")]
		g := refGroup{Index: s.Choose(3, "g.index"), Override: s.Choose(3, "g.override") == 0}
		return c13Op{name: fmt.Sprintf("SetRuleGroup %s %+v", id, g), apply: func(m *placement.RuleManager) error {
			return m.SetRuleGroup(&placement.RuleGroup{ID: id, Index: g.Index, Override: g.Override})
		}, ref: func(m *refModel) { m.setGroup(id, g) }}
	case 7:
		id := []string{"pd", "g1", "g11"}[s.Choose(3, "g.id")]
		return c13Op{name: "DeleteRuleGroup " + id, apply: func(m *placement.RuleManager) error { return m.DeleteRuleGroup(id) }, ref: func(m *refModel) { delete(m.groups, id) }}
	case 8:
		id := []string{"pd", "g1", "g11"}[s.Choose(3, "b.id")]
		g := refGroup{Index: s.Choose(3, "b.index"), Override: s.Choose(4, "b.override") == 0}
		n := s.Choose(3, "b.n")
		var rs []refRule
		for i := 0; i < n; i++ {
			r := genRefRule(rc)
			r.Group = id
			rs = append(rs, r)
		}
		return c13Op{name: fmt.Sprintf("SetGroupBundle %s %+v rules=%d", id, g, n), apply: func(m *placement.RuleManager) error {
			b := placement.GroupBundle{ID: id, Index: g.Index, Override: g.Override}
			for _, r := range rs {
				b.Rules = append(b.Rules, toPD(r))
			}
			return m.SetGroupBundle(b)
		}, ref: func(m *refModel) {
			for k := range m.rules {
				if k[0] == id {
					delete(m.rules, k)
				}
			}
			m.setGroup(id, g)
			for _, r := range rs {
				m.rules[[2]string{r.Group, r.ID}] = r
			}
		}}
	default:
		id := []string{"g1", "g11", "pd"}[s.Choose(3, "d.id")]
		return c13Op{name: "DeleteGroupBundle " + id, apply: func(m *placement.RuleManager) error { return m.DeleteGroupBundle(id, false) }, ref: func(m *refModel) {
			for k := range m.rules {
				if k[0] == id {
					delete(m.rules, k)
				}
			}
			delete(m.groups, id)
		}}
	}
}

const c13Group = 10

func c13(rc *corepkg) {
	s := rc.S
	s.SetSchedKnobs(0.1, 0, 0, 0)
	etcd := simetcd.New(s)
	runOn(rc, 0, "c13", func() {
		cl := etcd.NewClient(context.Background(), 0)
		st := core.NewStorage(kv.NewEtcdKVBase(cl, "/pd/7"))
		m := placement.NewRuleManager(st, nil)
		if err := m.Initialize(3, []string{"zone"}); err != nil {
			rc.Anomaly("initialize: %v", err)
			return
		}
		ref := newRefModel()
		ref.rules[[2]string{"pd", "default"}] = refRule{Group: "pd", ID: "default", Role: "voter", Count: 3}
		if !compareWithRef(rc, m, ref, "after Initialize") {
			return
		}
		// fault plan: the k-th storage write of rule data fails (k=0: none)
		k := rc.Run % c13Group
		mode := "before"
		if rc.Mode == "enum-unknown" {
			mode = "after"
		}
		rc.Knobs["fail_rule_write_no"] = k
		rc.Knobs["fail_mode"] = mode
		etcd.FailKeyFilter = func(key string) bool {
			return strings.Contains(key, "/rules/") || strings.Contains(key, "/rule_group/")
		}
		etcd.FailNthWrite(k, mode)
		nOps := 3 + rc.Knob("ops", 14)
		accepted, rejected, faulted := 0, 0, 0
		for i := 0; i < nOps && len(rc.Viol) == 0; i++ {
			op := genC13Op(rc, ref)
			before := servedDigest(m)
			err := op.apply(m)
			if err != nil && strings.Contains(err.Error(), "injected") {
				// a storage failure in the middle of the update: served rules unchanged, retrying converges
				faulted++
				if after := servedDigest(m); after != before {
					rc.Violate("c13.atomic", "failed-update-changed-served-rules", "%s failed with a storage error (%v) but the served rules changed", op.name, err)
					return
				}
				err = op.apply(m)
				if err != nil {
					rc.Violate("c13.atomic", "retry-did-not-converge", "%s failed with a storage error; retrying without faults fails with: %v", op.name, err)
					return
				}
			}
			if err != nil {
				rejected++
				if after := servedDigest(m); after != before {
					rc.Violate("c13.atomic", "rejected-update-changed-served-rules", "%s was rejected (%v) but something observable changed:\n before %s\n after  %s", op.name, err, before, after)
					return
				}
				rc.Note("%s -> rejected", op.name)
				continue
			}
			accepted++
			op.ref(ref)
			if ok, why := ref.valid(); !ok {
				rc.Violate("c13.validate", "invalid-rule-set-accepted", "%s was accepted although it leaves %s", op.name, why)
				return
			}
			if !compareWithRef(rc, m, ref, "after "+op.name) {
				return
			}
			// a restarted PD loads exactly what is being served
			m2 := placement.NewRuleManager(st, nil)
			if err := m2.Initialize(3, []string{"zone"}); err != nil {
				rc.Violate("c13.durable", "reload-failed", "after %s a fresh rule manager cannot load the stored rules: %v", op.name, err)
				return
			}
			if !compareWithRef(rc, m2, ref, "restarted after "+op.name) {
				return
			}
			rc.Note("%s -> ok", op.name)
		}
		rc.Nontrivial = accepted > 1 && (rejected > 0 || faulted > 0)
		rc.Note("ops=%d accepted=%d rejected=%d storage-faults=%d fail_at=%d(%s) rules=%d", nOps, accepted, rejected, faulted, k, mode, len(ref.rules))
		rc.State(fmt.Sprintf("acc=%d rej=%d f=%d rules=%d", min(accepted, 8), min(rejected, 6), faulted, min(len(ref.rules), 8)))
	})
}

func init() {
	ec.Register(&ec.Profile{
		Property: "C13", Level: "fault_enumeration",
		Modes:    []string{"enum", "enum", "enum", "enum-unknown"},
		SeedOf:   func(run int) int { return run / c13Group },
		Body:     c13,
		MaxSteps: 2000000, MaxTime: 30 * time.Minute,
		QuickBudget: 45 * time.Second, ThoroughBudget: 10 * time.Minute,
		Rule: "groups of 10 runs share one seeded sequence of 3-16 rule operations (SetRule, DeleteRule, SetRules, Batch with delete-by-prefix, SetRuleGroup, DeleteRuleGroup, SetGroupBundle, DeleteGroupBundle) over rules with nested / adjacent / unbounded ranges, indexes, override flags and roles, applied to the real RuleManager on the real core.Storage over the simulated etcd; run k makes the k-th storage write of rule data fail (k=0: none; clean, or in 1/4 of the groups applied-but-reported-failed) and then retries the update. After every accepted update: the reference (a naive rule list with the documented order/override semantics) must be valid, every observable (all rules, groups, rules by key at 13 keys, rules for 21 region ranges, split keys) must equal the reference, and a fresh RuleManager initialised from storage must serve the same; rejected or failed => served digest unchanged. non-trivial = >1 accepted and (a rejection or a storage fault)",
		Real: append([]string{"server/schedule/placement (RuleManager, rule list, config patch)"}, realE2...), Stub: stubE2,
	})
}
