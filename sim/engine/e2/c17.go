// Package e2 holds the "cluster" engine profiles: storage, placement rules,
// region sync, region cache, store lifecycle, operators, checkers, schedulers,
// replication mode - real PD components over the simulated etcd / disk / TiKV.
package e2

import (
	"bytes"
	"context"
	"errors"
	"fmt"
	"math"
	"sort"
	"time"

	"github.com/golang/protobuf/proto"
	"github.com/pingcap/kvproto/pkg/metapb"
	"github.com/tikv/pd/server/config"
	"github.com/tikv/pd/server/core"
	"github.com/tikv/pd/server/kv"

	ec "pdsim/engine/core"
	"pdsim/simdisk"
	"pdsim/simetcd"
	"pdsim/simrt"
)

var (
	realE2 = []string{"server/core (Storage, RegionStorage, BasicCluster, RegionsInfo, region tree)", "server/kv (etcd_kv, leveldb_kv on in-memory storage)", "pkg/btree", "go.etcd.io/etcd/clientv3 client-side code", "goleveldb"}
	stubE2 = []string{"etcd server (simetcd)", "file system below goleveldb's storage interface (simdisk)", "OS clock (synctest fake clock)"}
)

type corepkg = ec.RunCtx

type configT = config.Config

func marshal(m proto.Message) []byte { b, _ := proto.Marshal(m); return b }

// idSet draws n distinct ids with a drawn distribution.
func idSet(rc *corepkg, n int, label string) []uint64 {
	s := rc.S
	kind := rc.Knob(label+"_ids", 4)
	ids := make([]uint64, 0, n)
	switch kind {
	case 0: // dense from 1
		for i := 0; i < n; i++ {
			ids = append(ids, uint64(i+1))
		}
	case 1: // sparse
		cur := uint64(1 + s.Choose(1000, label+".start"))
		for i := 0; i < n; i++ {
			ids = append(ids, cur)
			cur += uint64(1 + s.Choose(100000, label+".gap"))
		}
	case 2: // mixed small and huge
		cur := uint64(1)
		for i := 0; i < n; i++ {
			ids = append(ids, cur)
			if i == n/2 {
				cur = math.MaxUint64/2 + uint64(s.Choose(1000, label+".mid"))
			} else {
				cur += uint64(1 + s.Choose(50, label+".gap2"))
			}
		}
	case 3: // at the very top of the range
		top := uint64(math.MaxUint64) - uint64(s.Choose(3, label+".top"))
		for i := 0; i < n; i++ {
			ids = append(ids, top-uint64(n-1-i))
		}
	}
	return ids
}

var boundarySizes = []int{0, 1, 2, 99, 100, 101, 150, 199, 200, 201, 250}

func c17(rc *corepkg) {
	switch rc.Mode {
	case "etcd":
		c17Etcd(rc)
	case "regionstorage":
		c17RegionStorage(rc)
	default:
		c17Prune(rc)
	}
}

func newEtcdStorage(rc *corepkg) (*simetcd.Cluster, *core.Storage) {
	etcd := simetcd.New(rc.S)
	cl := etcd.NewClient(context.Background(), 0)
	return etcd, core.NewStorage(kv.NewEtcdKVBase(cl, "/pd/7"))
}

// runOn executes f as a task of node 0 and waits for it.
func runOn(rc *corepkg, node int, label string, f func()) {
	done := make(chan struct{})
	rc.S.Spawn(node, label, func() { defer close(done); f() })
	<-done
	simrt.Resume()
}

func c17Etcd(rc *corepkg) {
	s := rc.S
	s.SetSchedKnobs(0.1, 0, 0, 0)
	etcd, st := newEtcdStorage(rc)
	nStores := boundarySizes[rc.Knob("stores", len(boundarySizes))]
	nRegions := boundarySizes[rc.Knob("regions", len(boundarySizes))]
	if rc.Tier == "thorough" && rc.Knob("bulk", 8) == 0 {
		nRegions = []int{9999, 10000, 10001, 10500}[rc.Knob("bulk_n", 4)]
	}
	keyLen := []int{0, 8, 200, 2000}[rc.Knob("key_len", 4)]
	runOn(rc, 0, "c17-etcd", func() {
		// ---- stores with weights
		wantStores := map[uint64]string{}
		weightEvery := []int{4, 1, 2}[rc.Knob("weight_density", 3)] // every 4th store, every store, every 2nd
		for _, id := range idSet(rc, nStores, "store") {
			meta := &metapb.Store{Id: id, Address: fmt.Sprintf("s%d:1", id)}
			if s.Choose(3, "st.direct") == 0 || nStores > 120 {
				etcd.PutDirect(fmt.Sprintf("/pd/7/raft/s/%020d", id), marshal(meta))
			} else if err := st.SaveStore(meta); err != nil {
				rc.Anomaly("save store: %v", err)
				return
			}
			lw, rw := 1.0, 1.0
			if s.Choose(weightEvery, "st.weight") == 0 {
				lw, rw = float64(1+s.Choose(9, "lw"))/2, float64(1+s.Choose(9, "rw"))/4
				if err := st.SaveStoreWeight(id, lw, rw); err != nil {
					rc.Anomaly("save weight: %v", err)
					return
				}
			}
			wantStores[id] = fmt.Sprintf("%s|%v|%v", meta.String(), lw, rw)
		}
		// delete a few
		for id := range copyKeys(wantStores) {
			if s.Choose(10, "st.del") == 0 {
				if err := st.DeleteStore(&metapb.Store{Id: id}); err != nil {
					rc.Anomaly("delete store: %v", err)
					return
				}
				delete(wantStores, id)
			}
		}
		got := map[uint64]string{}
		n := 0
		bud := s.Step + 200000
		err := st.LoadStores(func(si *core.StoreInfo) {
			n++
			if s.Step > bud || n > 3*len(wantStores)+10 {
				panic("c17: LoadStores does not terminate")
			}
			if _, dup := got[si.GetID()]; dup {
				rc.Violate("c17.stores", "store-loaded-twice", "store %d returned twice by LoadStores (%d stores saved)", si.GetID(), len(wantStores))
			}
			got[si.GetID()] = fmt.Sprintf("%s|%v|%v", si.GetMeta().String(), si.GetLeaderWeight(), si.GetRegionWeight())
		})
		if len(rc.Viol) > 0 {
			return
		}
		if err != nil {
			rc.Violate("c17.stores", "load-stores-failed", "LoadStores failed without any fault: %v", err)
			return
		}
		for id, w := range wantStores {
			if g, ok := got[id]; !ok {
				rc.Violate("c17.stores", "store-not-loaded", "store %d was saved and not deleted but LoadStores did not return it (%d stores saved, got %d)", id, len(wantStores), len(got))
				return
			} else if g != w {
				rc.Violate("c17.stores", "store-loaded-differently", "store %d loaded as %s, saved as %s", id, g, w)
				return
			}
		}
		if len(got) != len(wantStores) {
			rc.Violate("c17.stores", "extra-store-loaded", "LoadStores returned %d stores, %d are stored", len(got), len(wantStores))
			return
		}
		// ---- regions through the etcd backend, disjoint key ranges (no pruning here)
		want := map[uint64][]byte{}
		ids := idSet(rc, nRegions, "region")
		for i, id := range ids {
			start, end := keyOf(i, keyLen), keyOf(i+1, keyLen)
			if i == 0 {
				start = nil
			}
			if i == len(ids)-1 {
				end = nil
			}
			r := &metapb.Region{Id: id, StartKey: start, EndKey: end, RegionEpoch: &metapb.RegionEpoch{ConfVer: 1, Version: 1}, Peers: []*metapb.Peer{{Id: id/2 + 1, StoreId: 1}}}
			if nRegions > 120 || s.Choose(3, "rg.direct") == 0 {
				etcd.PutDirect(fmt.Sprintf("/pd/7/raft/r/%020d", id), marshal(r))
			} else if err := st.SaveRegion(r); err != nil {
				rc.Anomaly("save region: %v", err)
				return
			}
			want[id] = marshal(r)
		}
		// the adaptive page size: responses above a drawn size fail with "message larger than max"
		if lim := rc.Knob("max_range_regions", 4); lim > 0 && nRegions > 0 {
			per := len(want[ids[0]]) + 60
			etcd.Faults.MaxRangeBytes = per * []int{0, 120, 400, 3000}[lim]
		}
		gotR := map[uint64][]byte{}
		n = 0
		bud = s.Step + 400000
		err = st.LoadRegions(func(r *core.RegionInfo) []*core.RegionInfo {
			n++
			if s.Step > bud || n > 3*len(want)+10 {
				panic("c17: LoadRegions does not terminate")
			}
			if _, dup := gotR[r.GetID()]; dup {
				rc.Violate("c17.regions", "region-loaded-twice", "region %d returned twice by LoadRegions (%d regions saved)", r.GetID(), len(want))
			}
			gotR[r.GetID()] = marshal(r.GetMeta())
			return nil
		})
		etcd.Faults.MaxRangeBytes = 0
		if len(rc.Viol) > 0 {
			return
		}
		if err != nil {
			// legitimately fails only when a page of the minimum size does not fit
			rc.Extra["load_regions_failed"]++
			rc.Note("LoadRegions failed: %v", err)
		} else {
			for id, w := range want {
				if g, ok := gotR[id]; !ok {
					rc.Violate("c17.regions", "region-not-loaded", "region %d was saved but LoadRegions did not return it (%d regions saved, got %d)", id, len(want), len(gotR))
					return
				} else if !bytes.Equal(g, w) {
					rc.Violate("c17.regions", "region-loaded-differently", "region %d loaded differently from what was saved", id)
					return
				}
			}
			if len(gotR) != len(want) {
				rc.Violate("c17.regions", "extra-region-loaded", "LoadRegions returned %d regions, %d are stored", len(gotR), len(want))
				return
			}
		}
		rc.Nontrivial = nStores+nRegions > 0
		rc.Note("etcd backend: stores=%d regions=%d keylen=%d range-too-large=%d", len(wantStores), len(want), keyLen, s.Stats["fault.etcd.range-too-large"])
		rc.State(fmt.Sprintf("etcd s=%d r=%d", nStores, nRegions))
	})
}

func copyKeys(m map[uint64]string) map[uint64]bool {
	o := map[uint64]bool{}
	for k := range m {
		o[k] = true
	}
	return o
}

func keyOf(i, keyLen int) []byte {
	if keyLen == 0 {
		return []byte(fmt.Sprintf("%08d", i))
	}
	b := bytes.Repeat([]byte{'k'}, keyLen)
	copy(b, fmt.Sprintf("%08d", i))
	return b
}

// c17RegionStorage: the leveldb region backend, with a stop of the process between any two batches.
func c17RegionStorage(rc *corepkg) {
	s := rc.S
	s.SetSchedKnobs(0.1, 0, 0, 0)
	simdisk.Reset()
	etcd, _ := newEtcdStorage(rc)
	nRegions := []int{1, 50, 99, 100, 101, 199, 200, 201, 350}[rc.Knob("regions", 9)]
	crashAfter := rc.Run % 8 // crash after this many explicit flushes (0: never, close at the end)
	rc.Knobs["crash_after_flushes"] = crashAfter
	ctx, cancel := context.WithCancel(context.Background())
	s.OnTeardown = append(s.OnTeardown, cancel, simdisk.CloseAll)
	durable := map[uint64][]byte{} // saved and covered by a returned Flush/Close
	pending := map[uint64][]byte{}
	deleted := map[uint64]bool{}
	open := func() (*core.Storage, *core.RegionStorage) {
		var st *core.Storage
		var rs *core.RegionStorage
		runOn(rc, 0, "open-region-storage", func() {
			cl := etcd.NewClient(ctx, 0)
			var err error
			rs, err = core.NewRegionStorage(ctx, "/sim/region-meta", nil)
			if err != nil {
				rc.Anomaly("open region storage: %v", err)
				return
			}
			st = core.NewStorage(kv.NewEtcdKVBase(cl, "/pd/7"), core.WithRegionStorage(rs))
			st.SwitchToRegionStorage()
		})
		return st, rs
	}
	st, _ := open()
	if st == nil {
		return
	}
	crashed := false
	flushes := 0
	// disk errors: a write of the region kv fails (nothing written); the caller learns the error
	diskErrors := rc.Knob("disk_errors", 3) == 1
	maybe := map[uint64]bool{} // outcome unknown to the caller (its save / delete reported an error)
	if diskErrors {
		simdisk.WriteFault = func(node int, op string) error {
			if s.Chance("disk.fault", 0.3) {
				s.Count("fault.disk-write-error")
				return errors.New("simdisk: injected: no space left on device")
			}
			return nil
		}
	}
	runOn(rc, 0, "c17-rs-writer", func() {
		ids := idSet(rc, nRegions, "region")
		for i, id := range ids {
			r := &metapb.Region{Id: id, StartKey: keyOf(i, 0), EndKey: keyOf(i+1, 0), RegionEpoch: &metapb.RegionEpoch{ConfVer: 1, Version: 1}, Peers: []*metapb.Peer{{Id: id/2 + 1, StoreId: 1}}}
			if err := st.SaveRegion(r); err != nil {
				if !diskErrors {
					rc.Anomaly("save region: %v", err)
					return
				}
				maybe[id] = true // reported as failed: may or may not be there later
			} else {
				pending[id] = marshal(r)
			}
			delete(deleted, id)
			if s.Choose(8, "rs.resave") == 0 && len(durable) > 0 {
				// a durable region is saved again with a newer epoch: the new copy sits in the unflushed batch while the
				// older one is in leveldb (a delete that follows must remove both)
				for did, b := range durable {
					r2 := &metapb.Region{}
					if err := proto.Unmarshal(b, r2); err != nil {
						panic(err)
					}
					r2.RegionEpoch.Version++
					if err := st.SaveRegion(r2); err != nil {
						if !diskErrors {
							rc.Anomaly("save region again: %v", err)
							return
						}
						maybe[did] = true
					} else {
						pending[did] = marshal(r2)
					}
					break
				}
			}
			if s.Choose(25, "rs.del") == 0 && len(durable) > 0 {
				// delete a durable region (deletes go straight to leveldb)
				for did := range durable {
					if err := st.DeleteRegion(&metapb.Region{Id: did}); err == nil {
						delete(durable, did)
						delete(pending, did)
						deleted[did] = true
					} else {
						delete(durable, did)
						maybe[did] = true
					}
					break
				}
			}
			if s.Choose(30, "rs.flush") == 0 {
				if err := st.Flush(); err != nil {
					if !diskErrors {
						rc.Anomaly("flush: %v", err)
						return
					}
					continue // nothing acknowledged: the saves stay pending
				}
				flushes++
				for k, v := range pending {
					durable[k] = v
				}
				pending = map[uint64][]byte{}
				if crashAfter > 0 && flushes == crashAfter {
					crashed = true
					return
				}
			}
			if s.Choose(10, "rs.sleep") == 0 {
				simrt.Sleep(time.Duration(s.Choose(4000, "rs.sleep.d")) * time.Millisecond)
			}
		}
		simdisk.WriteFault = nil
		if err := st.Close(); err != nil {
			rc.Anomaly("close: %v", err)
			return
		}
		for k, v := range pending {
			durable[k] = v
		}
		pending = map[uint64][]byte{}
	})
	simdisk.WriteFault = nil
	if len(rc.Anoms) > 0 {
		return
	}
	if crashed {
		// the process stops: only what leveldb holds survives
		s.KillNode(0)
		simdisk.CrashNode(0)
		s.ReviveNode(0)
		s.Count("fault.crash")
	}
	st2, _ := open()
	if st2 == nil {
		return
	}
	got := map[uint64][]byte{}
	runOn(rc, 0, "c17-rs-loader", func() {
		n := 0
		err := st2.LoadRegions(func(r *core.RegionInfo) []*core.RegionInfo {
			n++
			if n > 3*(len(durable)+len(pending))+10 {
				panic("c17: LoadRegions does not terminate")
			}
			if _, dup := got[r.GetID()]; dup {
				rc.Violate("c17.regions", "region-loaded-twice", "region %d returned twice from the region storage", r.GetID())
			}
			got[r.GetID()] = marshal(r.GetMeta())
			return nil
		})
		if err != nil && len(rc.Viol) == 0 {
			rc.Violate("c17.regions", "load-regions-failed", "LoadRegions from region storage failed: %v", err)
		}
	})
	if len(rc.Viol) > 0 {
		return
	}
	for id, w := range durable {
		g, ok := got[id]
		if !ok {
			rc.Violate("c17.regions", "flushed-region-lost", "region %d was saved and a later Flush/Close returned, but it is not loaded after %s (%d durable, %d loaded)", id, map[bool]string{true: "a crash", false: "close"}[crashed], len(durable), len(got))
			return
		}
		if !bytes.Equal(g, w) {
			if _, maybeNewer := pending[id]; !maybeNewer && !maybe[id] {
				rc.Violate("c17.regions", "region-loaded-differently", "region %d loaded differently from its last durable save", id)
				return
			}
		}
	}
	for id := range got {
		if _, ok := durable[id]; ok {
			continue
		}
		if _, ok := pending[id]; ok {
			continue // saved but not covered by a flush: may or may not survive
		}
		if maybe[id] {
			continue // its save / delete reported an error
		}
		rc.Violate("c17.regions", "deleted-or-unknown-region-loaded", "region %d is loaded but was deleted or never saved (deleted=%v)", id, deleted[id])
		return
	}
	rc.Nontrivial = len(durable) > 0
	rc.Note("region storage: regions=%d durable=%d pending-at-stop=%d flushes=%d crashed=%v loaded=%d", nRegions, len(durable), len(pending), flushes, crashed, len(got))
	rc.State(fmt.Sprintf("rs n=%d crash=%v fl=%d", nRegions, crashed, min(flushes, 8)))
}

// c17Prune: loading regions into the cache removes stale / overlapped leftovers from storage.
func c17Prune(rc *corepkg) {
	s := rc.S
	s.SetSchedKnobs(0.1, 0, 0, 0)
	etcd, st := newEtcdStorage(rc)
	runOn(rc, 0, "c17-prune", func() {
		// a history of splits and merges in which old versions were not always deleted from storage
		type reg struct {
			id         uint64
			start, end int // key indexes; end<0: unbounded
			ver        uint64
		}
		nKeys := 4 + s.Choose(40, "pr.keys")
		nextID := uint64(10)
		live := []reg{{id: 1, start: 0, end: -1, ver: 1}}
		save := func(r reg) {
			var sk, ek []byte
			if r.start > 0 {
				sk = keyOf(r.start, 0)
			}
			if r.end >= 0 {
				ek = keyOf(r.end, 0)
			}
			m := &metapb.Region{Id: r.id, StartKey: sk, EndKey: ek, RegionEpoch: &metapb.RegionEpoch{ConfVer: 1, Version: r.ver}, Peers: []*metapb.Peer{{Id: r.id + 1000000, StoreId: 1}}}
			etcd.PutDirect(fmt.Sprintf("/pd/7/raft/r/%020d", r.id), marshal(m))
		}
		save(live[0])
		stale := 0
		notPersisted := map[uint64]bool{} // live regions whose newest version never reached storage
		steps := 3 + s.Choose(60, "pr.steps")
		for k := 0; k < steps; k++ {
			i := s.Choose(len(live), "pr.pick")
			r := live[i]
			hi := r.end
			if hi < 0 {
				hi = nKeys
			}
			if s.Choose(3, "pr.op") != 0 && hi-r.start >= 2 {
				// split at mid: left keeps the id (TiKV gives the new id to the left or right; both occur)
				mid := r.start + 1 + s.Choose(hi-r.start-1, "pr.mid")
				nr := reg{id: nextID, start: r.start, end: mid, ver: r.ver + 1}
				nextID += uint64(1 + s.Choose(3, "pr.idgap"))
				old := reg{id: r.id, start: mid, end: r.end, ver: r.ver + 1}
				if s.Choose(2, "pr.side") == 0 {
					nr.start, nr.end, old.start, old.end = mid, r.end, r.start, mid
				}
				live[i] = old
				live = append(live, nr)
				save(nr)
				// sometimes the old record of the split region is not rewritten: a stale overlapping leftover
				if s.Choose(3, "pr.stale") != 0 {
					save(old)
					delete(notPersisted, old.id)
				} else {
					stale++
					notPersisted[old.id] = true
				}
			} else if len(live) >= 2 {
				// merge r into its right neighbour (by key order)
				sort.Slice(live, func(a, b int) bool { return live[a].start < live[b].start })
				j := s.Choose(len(live)-1, "pr.merge")
				a, b := live[j], live[j+1]
				m := reg{id: b.id, start: a.start, end: b.end, ver: max(a.ver, b.ver) + 1}
				live = append(live[:j], live[j+1:]...)
				live[j] = m
				save(m)
				delete(notPersisted, m.id)
				delete(notPersisted, a.id)
				// the source region's record is not always deleted
				if s.Choose(2, "pr.srcdel") == 0 {
					etcd.DeleteDirect(fmt.Sprintf("/pd/7/raft/r/%020d", a.id))
				} else {
					stale++
				}
			}
		}
		bc := core.NewBasicCluster()
		if err := st.LoadRegionsOnce(bc.CheckAndPutRegion); err != nil {
			rc.Violate("c17.prune", "load-failed", "LoadRegionsOnce failed: %v", err)
			return
		}
		cached := map[uint64][]byte{}
		regions := bc.GetRegions()
		sort.Slice(regions, func(a, b int) bool { return bytes.Compare(regions[a].GetStartKey(), regions[b].GetStartKey()) < 0 })
		for i, r := range regions {
			cached[r.GetID()] = marshal(r.GetMeta())
			if i > 0 {
				prev := regions[i-1]
				if len(prev.GetEndKey()) == 0 || bytes.Compare(prev.GetEndKey(), r.GetStartKey()) > 0 {
					rc.Violate("c17.prune", "cache-overlap-after-load", "after loading, cached regions %d and %d overlap", prev.GetID(), r.GetID())
					return
				}
			}
		}
		// the newest version of every live region must be there
		for _, r := range live {
			if notPersisted[r.id] {
				continue
			}
			if _, ok := cached[r.id]; !ok {
				rc.Violate("c17.prune", "live-region-missing-after-load", "region %d (newest version %d) is not in the cache after loading", r.id, r.ver)
				return
			}
		}
		stored := map[uint64][]byte{}
		if err := st.LoadRegions(func(r *core.RegionInfo) []*core.RegionInfo { stored[r.GetID()] = marshal(r.GetMeta()); return nil }); err != nil {
			rc.Anomaly("second load failed: %v", err)
			return
		}
		for id, v := range stored {
			if c, ok := cached[id]; !ok {
				rc.Violate("c17.prune", "stale-region-left-in-storage", "region %d is still in storage after LoadRegionsOnce but not in the cache (stale or overlapped leftover not pruned)", id)
				return
			} else if !bytes.Equal(c, v) {
				rc.Violate("c17.prune", "storage-and-cache-differ", "region %d differs between storage and cache after loading", id)
				return
			}
		}
		for id := range cached {
			if _, ok := stored[id]; !ok {
				rc.Violate("c17.prune", "cached-region-deleted-from-storage", "region %d is cached but was deleted from storage by the load", id)
				return
			}
		}
		rc.Nontrivial = stale > 0
		rc.Note("prune: history steps=%d live=%d stale-leftovers=%d stored-after=%d", steps, len(live), stale, len(stored))
		rc.State(fmt.Sprintf("prune live=%d stale=%d", min(len(live), 12), min(stale, 8)))
	})
}

func init() {
	ec.Register(&ec.Profile{
		Property: "C17", Level: "fault_enumeration",
		Modes:    []string{"etcd", "regionstorage", "prune", "regionstorage"},
		SeedOf:   func(run int) int { return run / 8 },
		Body:     c17,
		MaxSteps: 2000000, MaxTime: 30 * time.Minute,
		QuickBudget: 45 * time.Second, ThoroughBudget: 10 * time.Minute,
		Rule: "modes: (etcd) real core.Storage over the simulated etcd with 0..250 (thorough: up to 10500) stores/regions around every paging boundary, dense / sparse / huge / top-of-range ids, weights, deletes, key sizes up to 2000 bytes and injected 'message larger than max' errors that force the adaptive page size down: full load must return every saved-and-not-deleted item exactly once; (regionstorage) real RegionStorage on goleveldb over the simulated disk: groups of 8 runs share one save/delete/flush history and run k stops the process right after the k-th Flush returned (k=0: Close), then a fresh instance must load everything covered by a returned Flush/Close, nothing deleted, and only optionally what was still batched; (prune) split/merge histories that leave stale and overlapping records in storage: after LoadRegionsOnce into a BasicCluster storage and cache must describe the same non-overlapping set containing the newest version of every live region. non-trivial = something was saved (etcd / regionstorage) or a stale leftover existed (prune)",
		Real: realE2, Stub: stubE2,
	})
}
