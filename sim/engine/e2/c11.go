package e2

import (
	"fmt"
	"sort"
	"strings"
	"time"

	"github.com/pingcap/kvproto/pkg/metapb"
	"github.com/tikv/pd/server/core"
	"github.com/tikv/pd/server/schedule/operator"
	"github.com/tikv/pd/server/schedule/placement"

	ec "pdsim/engine/core"
	"pdsim/simrt"
	"pdsim/simtikv"
)

// C11: scatter and balance moves preserve a region's replica count and roles.
//
// The world: the real coordinator runs the built-in schedulers (balance-region, balance-leader, hot-region and a drawn
// subset of shuffle-region, shuffle-leader, evict-leader, grant-leader, label, scatter-range) while an admin client
// asks for region scatters (with groups, so that earlier decisions bias later ones); stores heartbeat through the real
// handlers, a TiKV model executes the commands, a nemesis takes stores down / up / offline and adds stores. Every
// operator the schedulers or the scatterer get admitted is replayed step by step on PD's own view of the region at
// the operator's epoch.

func runBalanceWorld(rc *corepkg) {
	s := rc.S
	nStores := 4 + rc.Knob("extra_stores", 5)
	replicas := []int{1, 3, 3, 5}[rc.Knob("replicas", 4)]
	if replicas >= nStores {
		replicas = 3
	}
	rules := rc.Knob("placement_rules", 2) == 1
	var locLabels []string
	switch rc.Knob("location", 3) {
	case 1:
		locLabels = []string{"zone"}
	case 2:
		locLabels = []string{"zone", "host"}
	}
	zones := 2 + rc.Knob("zones", 3)
	rejectLabel := rc.Knob("reject_leader_label", 3) == 1
	labelsOf := func(i int) map[string]string {
		l := map[string]string{"zone": fmt.Sprintf("z%d", i%zones), "host": fmt.Sprintf("h%d", i/2)}
		if rejectLabel && i%3 == 2 {
			l["noleader"] = "true"
		}
		return l
	}
	joint := rc.Knob("joint_consensus", 2) == 1
	facts := &pdFacts{hb: map[uint64][]rpcEv{}, admin: map[uint64][]rpcEv{}, labels: map[uint64]map[string]string{}}
	ow := newOpWorld(rc, opWorldOpts{worldOpts: worldOpts{stores: nStores, replicas: replicas, fastPatrol: true, labels: labelsOf, schedulers: true,
		cfgTweak: func(c *configT) {
			scheduleTweak(replicas, locLabels, "", rules)(c)
			c.Schedule.EnableJointConsensus = joint
			c.Schedule.MaxMergeRegionSize = 0
			c.Schedule.PatrolRegionInterval.Duration = time.Second
			c.Schedule.TolerantSizeRatio = rc.KnobF("tolerant_ratio", 0.2, 1, 5)
			c.Schedule.MaxStoreDownTime.Duration = 30 * time.Second
			// a realistic rate of scheduling (and fewer scheduler steps per simulated second)
			c.Schedule.RegionScheduleLimit = uint64(1 + rc.Knob("region_limit", 3))
			c.Schedule.LeaderScheduleLimit = uint64(1 + rc.Knob("leader_limit", 3))
			c.Schedule.HotRegionScheduleLimit = 1
		}},
		regions: 4 + rc.Knob("regions", 12), hbEvery: rc.KnobD("hb_every", time.Second, 3*time.Second), cmdDelay: rc.KnobD("cmd_delay", 0, 300*time.Millisecond, 2*time.Second)})
	if ow == nil {
		return
	}
	for id, st := range ow.M.Stores {
		facts.labels[id] = st.Labels
	}
	ow.onStoreHB = func(id uint64, phase int, low bool) {
		if phase == 0 {
			facts.begin(facts.hb, id, rpcEv{low: low})
		} else {
			facts.end(facts.hb, id)
		}
	}
	downSince := map[uint64]time.Time{}
	ow.M.DownSeconds = func(id uint64) uint64 {
		if t, ok := downSince[id]; ok {
			return uint64(time.Since(t) / time.Second)
		}
		return 0
	}
	// some regions are hot
	for i, r := range ow.M.SortedRegions() {
		if i%3 == 0 && rc.Knob("hot_regions", 2) == 1 {
			r.WrittenBytes = uint64(20+i) << 20
			r.ReadBytes = uint64(30+i) << 20
		}
		r.SizeMB = uint64(10 + s.Choose(180, "c11.size"))
	}
	h := ow.Srv.GetHandler()
	// a learner rule keeps one learner per region around (moves must preserve its role)
	if rules && rc.Knob("learner_rule", 2) == 1 {
		var err error
		ow.onPD("set-rule", func() {
			err = ow.Cl.GetRuleManager().SetRule(&placement.Rule{GroupID: "pd", ID: "learners", Role: placement.Learner, Count: 1})
		})
		if err != nil {
			rc.Anomaly("set rule: %v", err)
			return
		}
	}
	// ---- extra schedulers
	evicted := map[uint64][]rpcEv{} // store -> evict-leader requests (state 1 = evicting)
	admin := func(label string, f func() error) error {
		var err error
		ow.onPD(label, func() { err = f() })
		return err
	}
	if rejectLabel {
		if err := admin("label-property", func() error { return ow.Srv.SetLabelProperty("reject-leader", "noleader", "true") }); err != nil {
			rc.Anomaly("label property: %v", err)
			return
		}
	}
	extra := rc.Knob("extra_schedulers", 64)
	if extra&1 != 0 {
		admin("add-shuffle-region", h.AddShuffleRegionScheduler)
	}
	if extra&2 != 0 {
		admin("add-shuffle-leader", h.AddShuffleLeaderScheduler)
	}
	if extra&4 != 0 {
		id := uint64(1 + s.Choose(nStores, "c11.evict"))
		facts.begin(evicted, id, rpcEv{state: 1})
		if err := admin("add-evict-leader", func() error { return h.AddEvictLeaderScheduler(id) }); err != nil {
			evicted[id] = nil
		}
		facts.end(evicted, id)
	}
	if extra&8 != 0 {
		id := uint64(1 + s.Choose(nStores, "c11.grant"))
		admin("add-grant-leader", func() error { return h.AddGrantLeaderScheduler(id) })
	}
	if extra&16 != 0 && rejectLabel {
		admin("add-label", h.AddLabelScheduler)
	}
	if extra&32 != 0 {
		admin("add-scatter-range", func() error { return h.AddScatterRangeScheduler("", "", "all") })
	}
	surelyEvicted := func(id uint64, T time.Time) bool {
		for _, e := range evicted[id] {
			if e.done && e.ack.Before(T) && e.state == 1 {
				return true
			}
		}
		return false
	}

	// ---- the oracle
	notSubject := map[string]bool{"make-up-replica": true, "add-rule-peer": true, "replace-down-replica": true, "replace-offline-replica": true, "replace-rule-down-peer": true,
		"replace-rule-offline-peer": true, "replace-rule-down-leader-peer": true, "replace-rule-offline-leader-peer": true, "move-to-better-location": true, "remove-extra-replica": true,
		"remove-extra-down-replica": true, "remove-extra-offline-replica": true, "remove-orphan-peer": true, "promote-learner": true, "fix-peer-role": true, "fix-leader-role": true,
		"fix-follower-role": true, "leave-joint-state": true, "merge-region": true, "rule-split-region": true, "random-merge": true}
	ow.onNewOp = func(t *opTrack) {
		op := t.op
		desc := op.Desc()
		if notSubject[desc] || strings.HasPrefix(desc, "admin-") {
			return
		}
		region, leaderSure := ow.pdRegionAtTime(t.region, op.RegionEpoch(), op.GetCreateTime())
		if region == nil {
			rc.Extra["no_snapshot"]++
			return
		}
		rc.Extra["judged:"+desc]++
		T := op.GetCreateTime()
		type pr struct {
			role metapb.PeerRole
		}
		peers := map[uint64]pr{}
		for _, p := range region.GetPeers() {
			peers[p.GetStoreId()] = pr{p.GetRole()}
		}
		count := func() (v, l int) {
			for _, p := range peers {
				if p.role == metapb.PeerRole_Learner {
					l++
				} else {
					v++
				}
			}
			return
		}
		v0, l0 := count()
		leader := region.GetLeader().GetStoreId()
		added, removed := map[uint64]bool{}, map[uint64]bool{}
		bad := func(class, f string, a ...interface{}) {
			rc.Violate("c11.move", class, "operator %s for region %d (peers %v, leader store %d): %s; steps %v", desc, t.region, region.GetPeers(), region.GetLeader().GetStoreId(), fmt.Sprintf(f, a...), stepsOf(op))
		}
		addPeer := func(to uint64, role metapb.PeerRole) {
			if _, dup := peers[to]; dup {
				bad("second-peer-on-store", "adds a peer on store %d which already holds one", to)
			}
			if off, _ := facts.offline(to, T); off {
				bad("peer-moved-to-offline-store", "moves a peer to store %d which PD had been told to take offline", to)
			}
			if facts.surelyDisconnected(to, T, 20*time.Second+500*time.Millisecond) {
				bad("peer-moved-to-disconnected-store", "moves a peer to store %d whose last heartbeat PD can have seen is more than 20s old", to)
			}
			peers[to] = pr{role}
			added[to] = true
		}
		for i := 0; i < op.Len(); i++ {
			switch st := op.Step(i).(type) {
			case operator.AddPeer:
				addPeer(st.ToStore, metapb.PeerRole_Voter)
			case operator.AddLightPeer:
				addPeer(st.ToStore, metapb.PeerRole_Voter)
			case operator.AddLearner:
				addPeer(st.ToStore, metapb.PeerRole_Learner)
			case operator.AddLightLearner:
				addPeer(st.ToStore, metapb.PeerRole_Learner)
			case operator.PromoteLearner:
				peers[st.ToStore] = pr{metapb.PeerRole_Voter}
			case operator.DemoteFollower:
				peers[st.ToStore] = pr{metapb.PeerRole_Learner}
			case operator.RemovePeer:
				delete(peers, st.FromStore)
				removed[st.FromStore] = true
			case operator.ChangePeerV2Enter:
				for _, p := range st.PromoteLearners {
					peers[p.ToStore] = pr{metapb.PeerRole_Voter}
				}
				for _, d := range st.DemoteVoters {
					peers[d.ToStore] = pr{metapb.PeerRole_Learner}
				}
			case operator.TransferLeader:
				if st.FromStore == st.ToStore {
					bad("leader-source-equals-target", "transfers the leader from store %d to itself", st.ToStore)
				}
				p, ok := peers[st.ToStore]
				if !ok || p.role == metapb.PeerRole_Learner {
					bad("leader-to-non-voter", "transfers the leader to store %d which holds %v", st.ToStore, map[bool]string{true: "a learner", false: "no peer"}[ok])
				}
				// (a hop back to the store that led the region when the operator was built is reported as its own class)
				back := ""
				if st.ToStore == region.GetLeader().GetStoreId() {
					back = "-returning-to-origin-leader"
				}
				if surelyEvicted(st.ToStore, T) && desc != "grant-leader" {
					bad("leader-to-evicted-store"+back, "transfers the leader to store %d which an evict-leader scheduler is emptying", st.ToStore)
				}
				if rejectLabel && facts.labels[st.ToStore]["noleader"] == "true" {
					bad("leader-to-reject-leader-store"+back, "transfers the leader to store %d whose labels %v carry the reject-leader property", st.ToStore, facts.labels[st.ToStore])
				}
				if off, _ := facts.offline(st.ToStore, T); off {
					bad("leader-to-offline-store"+back, "transfers the leader to store %d which PD had been told to take offline", st.ToStore)
				}
				if facts.surelyDisconnected(st.ToStore, T, 20*time.Second+500*time.Millisecond) {
					bad("leader-to-disconnected-store"+back, "transfers the leader to store %d whose last heartbeat PD can have seen is more than 20s old", st.ToStore)
				}
				leader = st.ToStore
			case operator.MergeRegion, operator.SplitRegion:
				return
			}
		}
		for to := range added {
			if removed[to] {
				bad("source-equals-target", "moves a peer from store %d to the same store", to)
			}
		}
		if v1, l1 := count(); v1 != v0 || l1 != l0 {
			bad("replica-count-changed", "leaves the region with %d voters and %d learners instead of %d and %d", v1, l1, v0, l0)
		}
		if _, ok := peers[leader]; !ok && region.GetLeader() != nil && leaderSure {
			bad("leader-removed", "ends with the leader on store %d which holds no peer any more", leader)
		}
	}

	ow.start()
	simrt.Sleep(3 * time.Second)
	// ---- admin: scatter requests; nemesis
	nextStore := uint64(nStores + 1)
	adminState := map[uint64]int{}
	groups := []string{"", "g1", "g2"}
	dur := time.Duration(20+s.Choose(70, "c11.dur")) * time.Second
	end := time.Now().Add(dur)
	for time.Now().Before(end) && len(rc.Viol) == 0 {
		simrt.Sleep(time.Duration(300+s.Choose(5000, "c11.gap")) * time.Millisecond)
		ids := make([]uint64, 0, len(ow.M.Stores))
		for id := range ow.M.Stores {
			ids = append(ids, id)
		}
		sort.Slice(ids, func(i, j int) bool { return ids[i] < ids[j] })
		switch s.Choose(10, "c11.what") {
		case 0, 1, 2, 3: // scatter one region
			rs := ow.M.SortedRegions()
			r := rs[s.Choose(len(rs), "c11.region")]
			g := groups[s.Choose(len(groups), "c11.group")]
			if err := admin("scatter", func() error { return h.AddScatterRegionOperator(r.ID, g) }); err == nil {
				rc.Extra["scatter_accepted"]++
			} else {
				rc.Extra["scatter_refused"]++
			}
		case 4: // scatter many
			var rids []uint64
			for _, r := range ow.M.SortedRegions() {
				if s.Choose(2, "c11.pick") == 0 {
					rids = append(rids, r.ID)
				}
			}
			g := groups[s.Choose(len(groups), "c11.group")]
			if len(rids) > 0 {
				admin("scatter-many", func() error { _, err := h.AddScatterRegionsOperators(rids, "", "", g, 2); return err })
				rc.Extra["scatter_many"]++
			}
		case 5: // store down / up
			id := ids[s.Choose(len(ids), "nem.store")]
			if ow.storeUp[id] {
				ow.storeUp[id], ow.M.Stores[id].Up = false, false
				downSince[id] = time.Now()
				rc.Extra["nem_store_down"]++
			} else {
				ow.storeUp[id], ow.M.Stores[id].Up = true, true
				delete(downSince, id)
				rc.Extra["nem_store_up"]++
			}
		case 6: // offline / up again
			id := ids[s.Choose(len(ids), "nem.store")]
			if adminState[id] == 0 {
				facts.begin(facts.admin, id, rpcEv{state: 1})
				if err := admin("remove-store", func() error { return ow.Cl.RemoveStore(id, false) }); err != nil {
					facts.admin[id][len(facts.admin[id])-1].state = 0
				} else {
					adminState[id] = 1
					rc.Extra["nem_store_offline"]++
				}
				facts.end(facts.admin, id)
			} else if adminState[id] == 1 {
				facts.begin(facts.admin, id, rpcEv{state: 0})
				if err := admin("up-store", func() error { return ow.Cl.UpStore(id) }); err != nil {
					facts.admin[id][len(facts.admin[id])-1].state = 1
					adminState[id] = 2
				} else {
					adminState[id] = 0
				}
				facts.end(facts.admin, id)
			}
		case 7: // a fresh store joins
			if len(ow.M.Stores) < 11 {
				l := labelsOf(int(nextStore))
				facts.labels[nextStore] = l
				ow.addStore(nextStore, l)
				nextStore++
				rc.Extra["nem_store_added"]++
			}
		case 8: // a change behind PD's back
			rs := ow.M.SortedRegions()
			ow.foreignEventOn(rs[s.Choose(len(rs), "nem.region")])
		case 9: // load shifts
			rs := ow.M.SortedRegions()
			r := rs[s.Choose(len(rs), "c11.hot")]
			r.WrittenBytes = uint64(s.Choose(64, "c11.w")) << 20
			r.ReadBytes = uint64(s.Choose(64, "c11.r")) << 20
		}
	}
	ow.stop = true
	kinds := 0
	for k := range rc.Extra {
		if strings.HasPrefix(k, "judged:") {
			kinds++
		}
	}
	rc.Note("stores=%d replicas=%d rules=%v location=%v reject-label=%v extra-schedulers=%06b joint=%v regions=%d admitted=%d judged-kinds=%d scatter ok/refused=%d/%d", nStores, replicas, rules, locLabels, rejectLabel,
		extra, joint, len(ow.M.SortedRegions()), rc.Extra["operators_admitted"], kinds, rc.Extra["scatter_accepted"], rc.Extra["scatter_refused"])
	rc.Nontrivial = kinds >= 2
	for ow.running > 0 {
		simrt.Sleep(time.Second)
	}
}

var _ = placement.Voter
var _ core.RegionInfo
var _ simtikv.Peer

func init() {
	ec.Register(&ec.Profile{
		Property: "C11", Level: "exploration",
		Modes:    []string{"balance"},
		Body:     func(rc *corepkg) { runBalanceWorld(rc) },
		MaxSteps: 800000, MaxTime: 30 * time.Minute,
		QuickBudget: 60 * time.Second, ThoroughBudget: 15 * time.Minute,
		Rule:        "one run = a bootstrapped real PD leader whose real coordinator runs balance-region, balance-leader, hot-region and a drawn subset of shuffle-region, shuffle-leader, evict-leader, grant-leader, label and scatter-range over 4-11 labelled stores and 4-16 regions of different size and load (replicas 1/3/5, with/without placement rules, location labels, a reject-leader label property, joint consensus); an admin client asks the real Handler for region scatters (single and batch, three groups, so earlier decisions bias later ones); a TiKV model executes the commands; a nemesis takes stores down / up, offline / up again, adds stores and changes regions behind PD's back. Every scheduler / scatter operator admitted by the real OperatorController is replayed step by step on PD's own view of the region at the operator's epoch: no second peer on a store, no move onto an offline or disconnected (>20s) store, source != target, leader only to a voter on a store that is not being evicted, carries no reject-leader label and is up and connected, and the same number of voters and learners at the end. non-trivial = operators of at least two kinds judged",
		Assumptions: []string{"partial claim: cluster states and scatter histories are those reached inside sampled simulated runs; the schedulers are functions of the cluster view plus their own history, and the universal statement over all of them needs enumeration (another technique family)", "special-engine (TiFlash) stores are not modelled"},
		Real:        realCluster, Stub: stubCluster,
	})
}
