package e2

import (
	"bytes"
	"fmt"
	"sort"
	"time"

	"github.com/pingcap/kvproto/pkg/metapb"
	"github.com/tikv/pd/server/core"

	ec "pdsim/engine/core"
	"pdsim/simtikv"
)

// C07: region lookups and per-store statistics match the cached region set.

type c07Monitor struct {
	rc     *corepkg
	bc     *core.BasicCluster
	checks int
}

func newC07Monitor(rc *corepkg, bc *core.BasicCluster) *c07Monitor {
	return &c07Monitor{rc: rc, bc: bc}
}

func regionContains(r *core.RegionInfo, key []byte) bool {
	return bytes.Compare(key, r.GetStartKey()) >= 0 && (len(r.GetEndKey()) == 0 || bytes.Compare(key, r.GetEndKey()) < 0)
}

func rid(r *core.RegionInfo) uint64 {
	if r == nil {
		return 0
	}
	return r.GetID()
}

func idsOfRegions(rs []*core.RegionInfo) string {
	var b bytes.Buffer
	for _, r := range rs {
		fmt.Fprintf(&b, "%d ", r.GetID())
	}
	return b.String()
}

// check compares every lookup / statistic with a linear scan over the current regions.
func (m *c07Monitor) check(when string) bool {
	rc, bc := m.rc, m.bc
	if len(rc.Viol) > 0 {
		return false
	}
	m.checks++
	rc.Extra["c07_checks"]++
	regions := bc.GetRegions()
	sort.Slice(regions, func(i, j int) bool { return bytes.Compare(regions[i].GetStartKey(), regions[j].GetStartKey()) < 0 })
	fail := func(class, format string, a ...any) bool {
		rc.Violate("c07.index", class, when+": "+format, a...)
		return false
	}
	if bc.Regions.Len() != len(regions) || bc.Regions.TreeLen() != len(regions) || bc.GetRegionCount() != len(regions) {
		return fail("index-size-differs", "%d regions are cached, the map holds %d and the key index %d", len(regions), bc.Regions.Len(), bc.Regions.TreeLen())
	}
	// probe keys: every boundary, a key just after it, and one before everything
	var keys [][]byte
	keys = append(keys, []byte{}, []byte("a"))
	for _, r := range regions {
		keys = append(keys, r.GetStartKey(), append(append([]byte{}, r.GetStartKey()...), 0))
		if len(r.GetEndKey()) > 0 {
			keys = append(keys, r.GetEndKey(), append(append([]byte{}, r.GetEndKey()...), 0))
		}
	}
	keys = append(keys, []byte("zzzz"))
	if len(keys) > 60 {
		// sample deterministically
		step := len(keys)/60 + 1
		var ks [][]byte
		for i := 0; i < len(keys); i += step {
			ks = append(ks, keys[i])
		}
		keys = ks
	}
	refSearch := func(k []byte) (int, *core.RegionInfo) {
		for i, r := range regions {
			if regionContains(r, k) {
				return i, r
			}
		}
		return -1, nil
	}
	for _, k := range keys {
		i, want := refSearch(k)
		if got := bc.SearchRegion(k); rid(got) != rid(want) {
			return fail("search-differs", "SearchRegion(%q) = region %d, a linear scan finds region %d", k, rid(got), rid(want))
		}
		var wantPrev *core.RegionInfo
		if i > 0 && bytes.Equal(regions[i-1].GetEndKey(), regions[i].GetStartKey()) {
			wantPrev = regions[i-1]
		}
		if got := bc.SearchPrevRegion(k); rid(got) != rid(wantPrev) {
			return fail("search-prev-differs", "SearchPrevRegion(%q) = region %d, a linear scan finds region %d", k, rid(got), rid(wantPrev))
		}
	}
	// range scans and overlap queries
	for a := 0; a < len(keys); a += 1 + len(keys)/12 {
		for b := a; b < len(keys); b += 1 + len(keys)/8 {
			start, end := keys[a], keys[b]
			if b == a {
				end = nil
			}
			if len(end) > 0 && bytes.Compare(start, end) >= 0 {
				continue
			}
			for _, limit := range []int{0, 1, 3} {
				var want []*core.RegionInfo
				for _, r := range regions {
					if len(r.GetEndKey()) > 0 && bytes.Compare(r.GetEndKey(), start) <= 0 {
						continue
					}
					if len(end) > 0 && bytes.Compare(r.GetStartKey(), end) >= 0 {
						break
					}
					if limit > 0 && len(want) >= limit {
						break
					}
					want = append(want, r)
				}
				if got := bc.ScanRange(start, end, limit); idsOfRegions(got) != idsOfRegions(want) {
					return fail("scan-differs", "ScanRange(%q,%q,%d) = [%s], a linear scan gives [%s]", start, end, limit, idsOfRegions(got), idsOfRegions(want))
				}
			}
			probe := core.NewRegionInfo(&metapb.Region{Id: 1 << 60, StartKey: start, EndKey: end}, nil)
			var want []*core.RegionInfo
			for _, r := range regions {
				if simtikv.KeyRangeOverlap(r.GetMeta(), probe.GetMeta()) {
					want = append(want, r)
				}
			}
			if got := bc.GetOverlaps(probe); idsOfRegions(got) != idsOfRegions(want) {
				return fail("overlaps-differ", "GetOverlaps([%q,%q)) = [%s], a linear scan gives [%s]", start, end, idsOfRegions(got), idsOfRegions(want))
			}
		}
	}
	for i, r := range regions {
		var wp, wn *core.RegionInfo
		// adjacent = the ranges touch (no hole in between)
		if i > 0 && bytes.Equal(regions[i-1].GetEndKey(), r.GetStartKey()) {
			wp = regions[i-1]
		}
		if i+1 < len(regions) && len(r.GetEndKey()) > 0 && bytes.Equal(r.GetEndKey(), regions[i+1].GetStartKey()) {
			wn = regions[i+1]
		}
		gp, gn := bc.GetAdjacentRegions(r)
		if rid(gp) != rid(wp) || rid(gn) != rid(wn) {
			return fail("adjacent-differ", "GetAdjacentRegions(region %d) = (%d,%d), a linear scan gives (%d,%d)", r.GetID(), rid(gp), rid(gn), rid(wp), rid(wn))
		}
	}
	// per-store statistics
	type stat struct {
		leaders, followers, learners, pending int
		leaderSize, followerSize, learnerSize int64
	}
	stats := map[uint64]*stat{}
	get := func(id uint64) *stat {
		if stats[id] == nil {
			stats[id] = &stat{}
		}
		return stats[id]
	}
	for _, r := range regions {
		for _, p := range r.GetPeers() {
			st := get(p.GetStoreId())
			switch {
			case p.GetRole() == metapb.PeerRole_Learner:
				st.learners++
				st.learnerSize += r.GetApproximateSize()
			case r.GetLeader() != nil && p.GetId() == r.GetLeader().GetId():
				st.leaders++
				st.leaderSize += r.GetApproximateSize()
			default:
				st.followers++
				st.followerSize += r.GetApproximateSize()
			}
		}
		for _, p := range r.GetPendingPeers() {
			get(p.GetStoreId()).pending++
		}
	}
	for id := uint64(1); id <= 8; id++ {
		st := get(id)
		g := []int64{int64(bc.GetStoreLeaderCount(id)), int64(bc.GetStoreFollowerCount(id)), int64(bc.Regions.GetStoreLearnerCount(id)), int64(bc.GetStorePendingPeerCount(id)),
			bc.GetStoreLeaderRegionSize(id), bc.Regions.GetStoreFollowerRegionSize(id), bc.Regions.GetStoreLearnerRegionSize(id), bc.GetStoreRegionSize(id), int64(bc.GetStoreRegionCount(id))}
		wv := []int64{int64(st.leaders), int64(st.followers), int64(st.learners), int64(st.pending), st.leaderSize, st.followerSize, st.learnerSize, st.leaderSize + st.followerSize + st.learnerSize, int64(st.leaders + st.followers + st.learners)}
		names := []string{"leader count", "follower count", "learner count", "pending-peer count", "leader size", "follower size", "learner size", "region size", "region count"}
		for i := range g {
			if g[i] != wv[i] {
				return fail("store-statistic-differs", "store %d %s is %d, the cached regions imply %d", id, names[i], g[i], wv[i])
			}
		}
		// random picks are candidates implied by the regions
		if len(regions) > 0 {
			kr := []core.KeyRange{core.NewKeyRange("", "")}
			if r := bc.RandLeaderRegion(id, kr); r != nil && (r.GetLeader() == nil || r.GetLeader().GetStoreId() != id || bc.GetRegion(r.GetID()) == nil) {
				return fail("random-pick-differs", "RandLeaderRegion(store %d) picked region %d whose leader is on store %d", id, r.GetID(), r.GetLeader().GetStoreId())
			}
			if st.leaders > 0 && bc.RandLeaderRegion(id, kr) == nil {
				return fail("random-pick-differs", "RandLeaderRegion(store %d) finds nothing although %d regions have their leader there", id, st.leaders)
			}
			if r := bc.RandFollowerRegion(id, kr); r != nil {
				p := r.GetStorePeer(id)
				if p == nil || p.GetRole() == metapb.PeerRole_Learner || (r.GetLeader() != nil && r.GetLeader().GetId() == p.GetId()) || bc.GetRegion(r.GetID()) == nil {
					return fail("random-pick-differs", "RandFollowerRegion(store %d) picked region %d where the store holds no follower", id, r.GetID())
				}
			}
			if r := bc.RandLearnerRegion(id, kr); r != nil {
				if p := r.GetStorePeer(id); p == nil || p.GetRole() != metapb.PeerRole_Learner {
					return fail("random-pick-differs", "RandLearnerRegion(store %d) picked region %d where the store holds no learner", id, r.GetID())
				}
			}
			if r := bc.RandPendingRegion(id, kr); r != nil {
				ok := false
				for _, p := range r.GetPendingPeers() {
					if p.GetStoreId() == id {
						ok = true
					}
				}
				if !ok {
					return fail("random-pick-differs", "RandPendingRegion(store %d) picked region %d which has no pending peer there", id, r.GetID())
				}
			}
		}
	}
	return true
}

// c07Chaos: arbitrary puts and removals on a stand-alone BasicCluster.
func c07Chaos(rc *corepkg) {
	s := rc.S
	bc := core.NewBasicCluster()
	mon := newC07Monitor(rc, bc)
	nKeys := []int{6, 12, 40, 200}[rc.Knob("key_space", 4)]
	nOps := 20 + rc.Knob("ops", 300)
	nextID := uint64(1)
	key := func(i int) []byte {
		if i <= 0 {
			return nil
		}
		return []byte(fmt.Sprintf("k%04d", i))
	}
	for k := 0; k < nOps && len(rc.Viol) == 0; k++ {
		existing := bc.GetRegions()
		sort.Slice(existing, func(i, j int) bool { return existing[i].GetID() < existing[j].GetID() })
		op := s.Choose(10, "ch.op")
		switch {
		case op < 6 || len(existing) == 0:
			// put: new id or existing id, arbitrary range (may swallow several neighbours, may be unbounded)
			id := nextID
			var ver uint64 = 1
			if len(existing) > 0 && s.Choose(3, "ch.sameid") == 0 {
				o := existing[s.Choose(len(existing), "ch.pick")]
				id = o.GetID()
				ver = o.GetRegionEpoch().GetVersion() + 1
			} else {
				nextID++
			}
			a := s.Choose(nKeys, "ch.start")
			var end []byte
			if b := a + 1 + s.Choose(nKeys-a+2, "ch.end"); b <= nKeys {
				end = key(b)
			}
			if len(existing) > 0 && s.Choose(4, "ch.samerange") == 0 {
				o := existing[s.Choose(len(existing), "ch.pick2")]
				a = -1
				end = o.GetEndKey()
				m := &metapb.Region{Id: id, StartKey: o.GetStartKey(), EndKey: end}
				_ = m
			}
			start := key(a)
			if a == -1 {
				o := existing[0]
				start, end = o.GetStartKey(), o.GetEndKey()
			}
			nPeers := 1 + s.Choose(4, "ch.peers")
			meta := &metapb.Region{Id: id, StartKey: start, EndKey: end, RegionEpoch: &metapb.RegionEpoch{ConfVer: 1, Version: ver}}
			stores := s.Choose(5, "ch.storebase")
			for p := 0; p < nPeers; p++ {
				role := metapb.PeerRole_Voter
				if p > 0 && s.Choose(4, "ch.learner") == 0 {
					role = metapb.PeerRole_Learner
				}
				meta.Peers = append(meta.Peers, &metapb.Peer{Id: id*10 + uint64(p), StoreId: uint64(1 + (stores+p)%6), Role: role})
			}
			var leader *metapb.Peer
			if s.Choose(5, "ch.noleader") != 0 {
				leader = meta.Peers[0]
			}
			opts := []core.RegionCreateOption{core.SetApproximateSize(int64(1 + s.Choose(200, "ch.size")))}
			if nPeers > 1 && s.Choose(3, "ch.pending") == 0 {
				opts = append(opts, core.WithPendingPeers([]*metapb.Peer{meta.Peers[nPeers-1]}))
			}
			bc.PutRegion(core.NewRegionInfo(meta, leader, opts...))
			rc.Extra["puts"]++
		default:
			bc.RemoveRegion(existing[s.Choose(len(existing), "ch.rm")])
			rc.Extra["removes"]++
		}
		if !mon.check(fmt.Sprintf("after operation %d", k)) {
			return
		}
	}
	rc.Nontrivial = rc.Extra["puts"] > 3
	rc.Note("chaos: key-space=%d ops=%d puts=%d removes=%d regions-at-end=%d", nKeys, nOps, rc.Extra["puts"], rc.Extra["removes"], bc.GetRegionCount())
	rc.State(fmt.Sprintf("chaos ks=%d n=%d", nKeys, min(bc.GetRegionCount(), 20)))
}

func c07(rc *corepkg) {
	if rc.Mode == "chaos" {
		c07Chaos(rc)
		return
	}
	// the histories produced by the simulated cluster (sequential heartbeats), monitored step by step
	rc.Mode = "sequential"
	c06Body(rc, false)
}

func init() {
	ec.Register(&ec.Profile{
		Property: "C07", Level: "exploration",
		Modes:    []string{"chaos", "cluster", "chaos"},
		Body:     c07,
		MaxSteps: 3000000, MaxTime: 20 * time.Minute,
		QuickBudget: 45 * time.Second, ThoroughBudget: 10 * time.Minute,
		Rule: "modes: (chaos) 20-320 arbitrary puts (new id / same id / same range / changed range swallowing several neighbours / unbounded end keys / changed peers, learners, leader, pending peers, sizes) and removals on a real BasicCluster over key spaces of 6..200 keys; (cluster) the heartbeat histories of the C06 sequential profile (splits, merges, conf changes, leader changes, re-delivered stale heartbeats handled by the real RaftCluster). After every change a linear-scan reference over GetRegions() is compared with SearchRegion, SearchPrevRegion, ScanRange (limits 0/1/3), GetOverlaps, GetAdjacentRegions, map length = index length, per-store leader/follower/learner/pending counts and sizes, and the Rand*Region picks. The property itself has no schedule or fault; simulation contributes the histories. non-trivial = >3 puts / >3 accepted heartbeats",
		Real: realCluster, Stub: stubCluster,
	})
}

var _ = time.Second
