package e2

import (
	"fmt"
	"time"

	"github.com/pingcap/kvproto/pkg/metapb"
	"github.com/pingcap/kvproto/pkg/pdpb"
	"github.com/tikv/pd/server"
	"github.com/tikv/pd/server/cluster"
	"github.com/tikv/pd/server/config"

	"pdsim/engine/e1"
	"pdsim/harness"
	"pdsim/simrt"
	"pdsim/simtikv"
)

var (
	realCluster = []string{"server.Server (real leader loop, gRPC handler methods)", "server/cluster (RaftCluster, coordinator, cluster workers)", "server/core (BasicCluster, RegionsInfo, region tree, StoreInfo, Storage)", "server/schedule (operator controller, checkers, filters, operators, placement)", "server/schedulers", "server/statistics", "server/replication", "server/kv", "pkg/btree"}
	stubCluster = []string{"TiKV stores and raft groups (simtikv model executing PD's commands)", "etcd server (simetcd)", "gRPC transport (simnet)", "HTTP API layer", "OS clock (synctest fake clock)", "disk below goleveldb (simdisk)"}
)

// World is a bootstrapped PD leader plus the TiKV model.
type World struct {
	RC  *corepkg
	E   *e1.Env
	L   *harness.Node
	Srv *server.Server
	Cl  *cluster.RaftCluster
	M   *simtikv.Model
	// onStoreHB is called before (phase 0) and after (phase 1) every store heartbeat RPC
	onStoreHB func(store uint64, phase int, lowSpace bool)
	// restarting is set while the profile itself restarts PD (otherwise a new server object means the supervisor
	// restarted PD after a panic, and the run stops: every handle the world holds points into the dead process)
	restarting bool
}

type worldOpts struct {
	stores       int
	labels       func(i int) map[string]string
	cfgTweak     func(*config.Config)
	faults       bool
	replicas     int
	noInitHB     bool
	fastPatrol   bool
	schedulers   bool
	storeVersion string // TiKV version reported by the stores ("" = 5.0.0)
}

// onPD runs f as a task on the PD node and waits for it.
func (w *World) onPD(label string, f func()) {
	runOn(w.RC, w.L.ID, label, f)
}

func newWorld(rc *corepkg, o worldOpts) *World {
	e := e1.Setup(rc, e1.Opts{MinNodes: 1, MaxNodes: 1, Faults: false})
	e.W.Nodes[0].CfgTweak = func(c *config.Config) {
		// the TSO daemon is not the subject of the cluster profiles: tick it slowly to save scheduler steps
		c.TSOUpdatePhysicalInterval.Duration = 2 * time.Second
		if !o.fastPatrol {
			c.Schedule.PatrolRegionInterval.Duration = time.Second
		}
		if !o.schedulers {
			// the built-in schedulers are not the subject: keep them registered but disabled
			c.Schedule.Schedulers = config.SchedulerConfigs{
				{Type: "balance-region", Disable: true}, {Type: "balance-leader", Disable: true}, {Type: "hot-region", Disable: true}, {Type: "label", Disable: true}}
		}
		if o.cfgTweak != nil {
			o.cfgTweak(c)
		}
	}
	if !e.StartAll() {
		return nil
	}
	l := e.WaitLeader(20 * time.Second)
	if l == nil {
		rc.Anomaly("liveness: no leader")
		return nil
	}
	if err := e.Bootstrap(l); err != nil {
		rc.Anomaly("bootstrap: %v", err)
		return nil
	}
	w := &World{RC: rc, E: e, L: l, Srv: l.Srv, M: simtikv.New(rc.Knob("num_keys", 3)*40+8, 1000000)}
	w.M.StoreVersion = o.storeVersion
	rc.S.AddMonitor(func() {
		if !w.restarting && w.L.Srv != w.Srv {
			rc.Note("the PD process was restarted by the supervisor after a panic: run stopped")
			rc.S.Stop("pd-process-restarted")
		}
	})
	w.Cl = l.Srv.GetRaftCluster()
	if w.Cl == nil {
		rc.Anomaly("raft cluster not running after bootstrap")
		return nil
	}
	cli := e.W.Net.Dial(l.ClientURL)
	// ids are unique across stores, regions and peers in a real cluster (one allocator): move PD's allocator past
	// the small store ids used here before it hands out peer ids
	for i := 0; i < 64; i++ {
		ctx, cancel := e1.Ctx(5 * time.Second)
		cli.AllocID(ctx, &pdpb.AllocIDRequest{Header: &pdpb.RequestHeader{ClusterId: e.ClusterID}})
		cancel()
	}
	for i := 1; i <= o.stores; i++ {
		var labels map[string]string
		if o.labels != nil {
			labels = o.labels(i)
		}
		st := w.M.AddStore(uint64(i), labels)
		if i == 1 {
			continue // the bootstrap store (no labels known to PD yet: re-put below)
		}
		ctx, cancel := e1.Ctx(5 * time.Second)
		_, err := cli.PutStore(ctx, &pdpb.PutStoreRequest{Header: &pdpb.RequestHeader{ClusterId: e.ClusterID}, Store: st.Meta()})
		cancel()
		if err != nil {
			rc.Anomaly("put store %d: %v", i, err)
			return nil
		}
	}
	// the first region as bootstrapped (id 2, peer 3 on store 1), then replicated to `replicas` stores
	r := &simtikv.Region{ID: 1001, Start: 0, End: -1, Ver: 1, ConfVer: 1, Term: 1, Peers: []simtikv.Peer{{ID: 1002, StoreID: 1}}, Leader: 1002, SizeMB: 96, Keys: 100000}
	for i := 2; i <= o.replicas && i <= o.stores; i++ {
		r.Peers = append(r.Peers, simtikv.Peer{ID: w.M.AllocID(), StoreID: uint64(i)})
		r.ConfVer++
	}
	w.M.Regions[1001] = r
	return w
}

// storeHeartbeat reports a store's statistics through the real StoreHeartbeat handler.
func (w *World) storeHeartbeat(st *simtikv.Store) error {
	cli := w.E.W.Net.Dial(w.L.ClientURL)
	ctx, cancel := e1.Ctx(5 * time.Second)
	defer cancel()
	regions, leaders := 0, 0
	for _, r := range w.M.Regions {
		if r.Merged {
			continue
		}
		if p := r.PeerOnStore(st.ID); p != nil {
			regions++
			if p.ID == r.Leader {
				leaders++
			}
		}
	}
	// low on space as PD defines it: less than 20% free, and (stores with few regions, issue #3444) not more than 8 GiB free
	low := float64(st.Capacity-st.Used) < 0.2*float64(st.Capacity) && st.Capacity-st.Used <= 1<<33
	if w.onStoreHB != nil {
		w.onStoreHB(st.ID, 0, low)
	}
	defer func() {
		if w.onStoreHB != nil {
			w.onStoreHB(st.ID, 1, low)
		}
	}()
	_, err := cli.StoreHeartbeat(ctx, &pdpb.StoreHeartbeatRequest{Header: &pdpb.RequestHeader{ClusterId: w.E.ClusterID}, Stats: &pdpb.StoreStats{
		StoreId: st.ID, Capacity: st.Capacity, Available: st.Capacity - st.Used, UsedSize: st.Used, RegionCount: uint32(regions),
		StartTime: 946684800, Interval: &pdpb.TimeInterval{StartTimestamp: 0, EndTimestamp: 10},
	}})
	return err
}

var _ = metapb.PeerRole_Voter
var _ = fmt.Sprintf
var _ = simrt.Sleep
