package e2

import (
	"bytes"
	"errors"
	"fmt"
	"sort"
	"time"

	"github.com/pingcap/kvproto/pkg/metapb"
	"github.com/pingcap/kvproto/pkg/pdpb"
	"github.com/tikv/pd/server/core"

	ec "pdsim/engine/core"
	"pdsim/simrt"
	"pdsim/simtikv"
)

// C06: the region cache never regresses and never holds overlapping regions.

type epochMark struct{ ver, conf, term uint64 }

type c06Oracle struct {
	rc   *corepkg
	w    *World
	high map[uint64]epochMark // per region id: highest epoch / term ever served
}

// monitor: evaluated by the scheduler while every task is parked (skipped when the cluster lock is held).
func (o *c06Oracle) monitor() {
	regions := o.w.Srv.GetBasicCluster().GetRegions()
	sort.Slice(regions, func(i, j int) bool { return bytes.Compare(regions[i].GetStartKey(), regions[j].GetStartKey()) < 0 })
	// the high-water marks follow a region id while it stays served: once a region has been displaced from the
	// cache PD keeps no memory of it (a later heartbeat of that id that overlaps nothing newer is a new region to PD)
	present := map[uint64]bool{}
	for _, r := range regions {
		present[r.GetID()] = true
	}
	for id := range o.high {
		if !present[id] {
			delete(o.high, id)
		}
	}
	for i, r := range regions {
		e := r.GetRegionEpoch()
		h := o.high[r.GetID()]
		if e.GetVersion() < h.ver || e.GetConfVer() < h.conf || (r.GetTerm() > 0 && r.GetTerm() < h.term) {
			o.rc.Violate("c06.regress", "served-region-regressed", "region %d is served with version %d conf_ver %d term %d after it had been served with version %d conf_ver %d term %d",
				r.GetID(), e.GetVersion(), e.GetConfVer(), r.GetTerm(), h.ver, h.conf, h.term)
			return
		}
		if e.GetVersion() > h.ver {
			h.ver = e.GetVersion()
		}
		if e.GetConfVer() > h.conf {
			h.conf = e.GetConfVer()
		}
		if r.GetTerm() > h.term {
			h.term = r.GetTerm()
		}
		o.high[r.GetID()] = h
		if i > 0 {
			p := regions[i-1]
			if len(p.GetEndKey()) == 0 || bytes.Compare(p.GetEndKey(), r.GetStartKey()) > 0 {
				o.rc.Violate("c06.overlap", "served-regions-overlap", "regions %d [%q,%q) v%d and %d [%q,%q) v%d are served at the same time and overlap",
					p.GetID(), p.GetStartKey(), p.GetEndKey(), p.GetRegionEpoch().GetVersion(), r.GetID(), r.GetStartKey(), r.GetEndKey(), e.GetVersion())
				return
			}
		}
	}
}

func cacheDigest(bc *core.BasicCluster) string {
	regions := bc.GetRegions()
	sort.Slice(regions, func(i, j int) bool { return regions[i].GetID() < regions[j].GetID() })
	var b bytes.Buffer
	for _, r := range regions {
		fmt.Fprintf(&b, "%d:%q-%q:%d/%d/%d:l%d;", r.GetID(), r.GetStartKey(), r.GetEndKey(), r.GetRegionEpoch().GetVersion(), r.GetRegionEpoch().GetConfVer(), r.GetTerm(), r.GetLeader().GetId())
	}
	return b.String()
}

// mutate applies one spontaneous event to the TiKV model.
func mutate(rc *corepkg, m *simtikv.Model) string {
	s := rc.S
	rs := m.SortedRegions()
	r := rs[s.Choose(len(rs), "ev.region")]
	switch s.Choose(8, "ev.kind") {
	case 0, 1, 2:
		hi := r.End
		if hi < 0 {
			hi = m.NumKeys
		}
		if hi-r.Start < 2 || len(rs) > 40 {
			return ""
		}
		at := r.Start + 1 + s.Choose(hi-r.Start-1, "ev.at")
		ids := make([]uint64, len(r.Peers))
		nid := m.AllocID()
		for i := range ids {
			ids[i] = m.AllocID()
		}
		m.Split(r, at, nid, ids)
		return fmt.Sprintf("split %d at %d -> %d", r.ID, at, nid)
	case 3:
		if n := m.RightNeighbour(r); n != nil && simtikv.SameStores(r, n) && !r.InJoint() && !n.InJoint() {
			if s.Choose(2, "ev.mergedir") == 0 {
				m.Merge(r, n)
				return fmt.Sprintf("merge %d into %d", r.ID, n.ID)
			}
			m.Merge(n, r)
			return fmt.Sprintf("merge %d into %d", n.ID, r.ID)
		}
	case 4:
		// leader change
		var cands []simtikv.Peer
		for _, p := range r.Peers {
			if p.Role == metapb.PeerRole_Voter && p.ID != r.Leader {
				cands = append(cands, p)
			}
		}
		if len(cands) > 0 {
			r.Elect(cands[s.Choose(len(cands), "ev.leader")].ID)
			return fmt.Sprintf("elect %d in region %d", r.Leader, r.ID)
		}
	case 5:
		// conf change: add a learner on a free store / promote / remove a non-leader peer
		for id := range m.Stores {
			if r.PeerOnStore(id) == nil && s.Choose(2, "ev.addstore") == 0 {
				r.Peers = append(r.Peers, simtikv.Peer{ID: m.AllocID(), StoreID: id, Role: metapb.PeerRole_Learner, Pending: true})
				r.ConfVer++
				return fmt.Sprintf("add learner on store %d to region %d", id, r.ID)
			}
		}
		for i := range r.Peers {
			if r.Peers[i].Role == metapb.PeerRole_Learner {
				r.Peers[i].Role = metapb.PeerRole_Voter
				r.Peers[i].Pending = false
				r.ConfVer++
				return fmt.Sprintf("promote peer %d of region %d", r.Peers[i].ID, r.ID)
			}
		}
	case 6:
		if len(r.Peers) > 1 {
			for i, p := range r.Peers {
				if p.ID != r.Leader && (p.Role == metapb.PeerRole_Learner || r.Voters() > 1) {
					r.Peers = append(r.Peers[:i], r.Peers[i+1:]...)
					r.ConfVer++
					return fmt.Sprintf("remove peer %d of region %d", p.ID, r.ID)
				}
			}
		}
	case 7:
		r.SizeMB += uint64(s.Choose(64, "ev.size"))
		r.Keys += uint64(s.Choose(100000, "ev.keys"))
		r.WrittenBytes = uint64(s.Choose(1<<20, "ev.wb"))
		for i := range r.Peers {
			if r.Peers[i].ID != r.Leader && s.Choose(4, "ev.pending") == 0 {
				r.Peers[i].Pending = !r.Peers[i].Pending
			}
		}
		return fmt.Sprintf("stats of region %d", r.ID)
	}
	return ""
}

func hbStale(bc *core.BasicCluster, hb *pdpb.RegionHeartbeatRequest) (bool, string) {
	m := hb.GetRegion()
	if o := bc.GetRegion(m.GetId()); o != nil {
		oe, e := o.GetRegionEpoch(), m.GetRegionEpoch()
		if e.GetVersion() < oe.GetVersion() || e.GetConfVer() < oe.GetConfVer() || (hb.GetTerm() > 0 && hb.GetTerm() < o.GetTerm()) {
			return true, fmt.Sprintf("staler than cached region %d (%d/%d/%d < %d/%d/%d)", m.GetId(), e.GetVersion(), e.GetConfVer(), hb.GetTerm(), oe.GetVersion(), oe.GetConfVer(), o.GetTerm())
		}
	}
	for _, o := range bc.GetRegions() {
		if o.GetID() != m.GetId() && simtikv.KeyRangeOverlap(o.GetMeta(), m) && m.GetRegionEpoch().GetVersion() < o.GetRegionEpoch().GetVersion() {
			return true, fmt.Sprintf("older in version (%d) than overlapped cached region %d (%d)", m.GetRegionEpoch().GetVersion(), o.GetID(), o.GetRegionEpoch().GetVersion())
		}
	}
	return false, ""
}

var errPDGone = errors.New("c06: PD process gone")

func c06(rc *corepkg) { c06Body(rc, true) }

// c06Body runs the heartbeat world; own=false: only the C07 monitor is active (C07's cluster mode).
func c06Body(rc *corepkg, own bool) {
	s := rc.S
	w := newWorld(rc, worldOpts{stores: 3 + rc.Knob("extra_stores", 3), replicas: 3})
	if w == nil {
		return
	}
	// the schedulers and checkers are not the subject here: the TiKV model ignores PD's commands
	o := &c06Oracle{rc: rc, w: w, high: map[uint64]epochMark{}}
	if own {
		s.AddMonitor(o.monitor)
	}
	c07mon := newC07Monitor(rc, w.Srv.GetBasicCluster())
	sequential := rc.Mode == "sequential"
	bc := w.Srv.GetBasicCluster()
	st := w.Srv.GetStorage()
	nStreams := 1
	if !sequential {
		nStreams = 2 + rc.Knob("streams", 3)
		s.SetSchedKnobs(rc.KnobF("p_switch2", 0.3, 1), rc.KnobF("p_lock2", 0.1, 0.4), 0, 0)
	} else if own && rc.Knob("slow_node", 2) == 1 {
		// heartbeats still one at a time, but the node is slow now and then: simulated time passes inside a handler, so
		// the background work (the region storage's periodic flush) runs interleaved with it
		s.SetSchedKnobs(0.5, 0.3, 0.03, 1500*time.Millisecond)
	}
	nHB := 30 + rc.Knob("heartbeats", 120)
	pStale := rc.KnobF("p_stale", 0.05, 0.2, 0.5)
	running := nStreams
	pdGone := false
	send := func(hb *pdpb.RegionHeartbeatRequest) error {
		var err error
		e := hb.GetRegion().GetRegionEpoch()
		s.Event("hb send region=%d v%d c%d t%d leader=%d [%q,%q)", hb.GetRegion().GetId(), e.GetVersion(), e.GetConfVer(), hb.GetTerm(), hb.GetLeader().GetId(), hb.GetRegion().GetStartKey(), hb.GetRegion().GetEndKey())
		finished := false
		w.onPD("region-heartbeat", func() {
			err = w.Cl.HandleRegionHeartbeat(core.RegionFromHeartbeat(hb))
			finished = true
		})
		if !finished || !w.L.Up || w.L.Srv != w.Srv {
			// the handler never ran to its end: the PD process died under it (a panic elsewhere in PD takes the whole
			// process down; the supervisor restarts it) - nothing was answered, nothing can be concluded
			pdGone = true
			return errPDGone
		}
		s.Event("hb done region=%d v%d c%d -> %v", hb.GetRegion().GetId(), e.GetVersion(), e.GetConfVer(), err == nil)
		return err
	}
	for k := 0; k < nStreams; k++ {
		s.Spawn(-1, fmt.Sprintf("hb-stream-%d", k), func() {
			defer func() { running-- }()
			for i := 0; i < nHB && len(rc.Viol) == 0 && !pdGone; i++ {
				if s.Choose(3, "hb.mutate") != 0 {
					if ev := mutate(rc, w.M); ev != "" {
						rc.Extra["model_events"]++
						if err := w.M.CheckInvariants(); err != nil {
							panic(err)
						}
					}
				}
				var hb *pdpb.RegionHeartbeatRequest
				if len(w.M.Sent) > 0 && s.Chance("hb.stale", pStale) {
					// delayed / duplicated / reordered delivery of an earlier heartbeat
					hb = w.M.Sent[s.Choose(len(w.M.Sent), "hb.old")]
					rc.Extra["stale_or_duplicate_sent"]++
					if s.Choose(4, "hb.newterm") == 0 {
						// a freshly elected leader that has not applied the latest conf change / split yet: a newer
						// raft term together with an older epoch
						cp := *hb
						if r := w.M.Regions[hb.GetRegion().GetId()]; r != nil {
							r.Term++
							cp.Term = r.Term
						} else {
							cp.Term += uint64(1 + s.Choose(3, "hb.termup"))
						}
						hb = &cp
						rc.Extra["lagging_new_leader_sent"]++
					}
				} else {
					rs := w.M.SortedRegions()
					hb = w.M.Heartbeat(rs[s.Choose(len(rs), "hb.region")])
				}
				if sequential && own && s.Choose(12, "hb.mixed") == 0 {
					// a heartbeat whose epoch is newer in one component and older in the other than what PD holds for
					// the id (no raft history produces one; a corrupted or forged report): it is staler in one
					// component, must be refused and must change nothing. Only sent when PD certainly holds the id.
					if o := bc.GetRegion(hb.GetRegion().GetId()); o != nil {
						oe := o.GetRegionEpoch()
						ep := &metapb.RegionEpoch{Version: oe.GetVersion() + uint64(1+s.Choose(3, "hb.mixed.up")), ConfVer: oe.GetConfVer()}
						if s.Choose(2, "hb.mixed.side") == 0 {
							ep = &metapb.RegionEpoch{Version: oe.GetVersion(), ConfVer: oe.GetConfVer() + uint64(1+s.Choose(3, "hb.mixed.up2"))}
						}
						ok := false
						if ep.Version > oe.GetVersion() && ep.ConfVer > 0 {
							ep.ConfVer -= uint64(1 + s.Choose(int(min(ep.ConfVer, 2)), "hb.mixed.down"))
							ok = true
						} else if ep.ConfVer > oe.GetConfVer() && ep.Version > 0 {
							ep.Version -= uint64(1 + s.Choose(int(min(ep.Version, 2)), "hb.mixed.down2"))
							ok = true
						}
						if ok {
							cp := *hb
							reg := *hb.GetRegion()
							reg.RegionEpoch = ep
							cp.Region = &reg
							hb = &cp
							rc.Extra["mixed_epoch_sent"]++
						}
					}
				}
				if !sequential || !own {
					if err := send(hb); err != nil {
						rc.Extra["hb_rejected"]++
					} else {
						rc.Extra["hb_accepted"]++
						if sequential {
							c07mon.check("after heartbeat of region " + fmt.Sprint(hb.GetRegion().GetId()))
						}
					}
					continue
				}
				// one at a time: exact expectations
				stale, why := hbStale(bc, hb)
				before := cacheDigest(bc)
				var displaced []*core.RegionInfo
				for _, r := range bc.GetRegions() {
					if r.GetID() != hb.GetRegion().GetId() && simtikv.KeyRangeOverlap(r.GetMeta(), hb.GetRegion()) {
						displaced = append(displaced, r)
					}
				}
				err := send(hb)
				if pdGone {
					rc.Note("the PD process went down during the run: stopped")
					return
				}
				if stale {
					if err == nil {
						rc.Violate("c06.stale", "stale-heartbeat-accepted", "heartbeat of region %d (%v term %d) is %s but was answered without error", hb.GetRegion().GetId(), hb.GetRegion().GetRegionEpoch(), hb.GetTerm(), why)
						return
					}
					if after := cacheDigest(bc); after != before {
						rc.Violate("c06.stale", "stale-heartbeat-changed-cache", "heartbeat of region %d is %s, was refused, but the cache changed", hb.GetRegion().GetId(), why)
						return
					}
					rc.Extra["hb_rejected"]++
					continue
				}
				if err != nil {
					rc.Violate("c06.stale", "fresh-heartbeat-refused", "heartbeat of region %d (%v term %d) is not stale but was refused: %v", hb.GetRegion().GetId(), hb.GetRegion().GetRegionEpoch(), hb.GetTerm(), err)
					return
				}
				rc.Extra["hb_accepted"]++
				// displaced regions disappear from the cache at once, and from storage as well
				for _, d := range displaced {
					if bc.GetRegion(d.GetID()) != nil {
						rc.Violate("c06.overlap", "displaced-region-still-cached", "region %d was overlapped by the accepted heartbeat of region %d but is still cached", d.GetID(), hb.GetRegion().GetId())
						return
					}
				}
				if len(displaced) > 0 {
					rc.Extra["displaced"] += len(displaced)
					var found uint64
					w.onPD("storage-check", func() {
						st.Flush()
						for _, d := range displaced {
							if ok, _ := st.LoadRegion(d.GetID(), &metapb.Region{}); ok {
								found = d.GetID()
							}
						}
					})
					if found != 0 {
						rc.Violate("c06.storage", "displaced-region-still-stored", "region %d was displaced by the accepted heartbeat of region %d but is still in storage after a flush", found, hb.GetRegion().GetId())
						return
					}
				}
				c07mon.check("after heartbeat of region " + fmt.Sprint(hb.GetRegion().GetId()))
			}
		})
	}
	for running > 0 && len(rc.Viol) == 0 {
		simrt.Sleep(50 * time.Millisecond)
	}
	if len(rc.Viol) == 0 {
		c07mon.check("at the end")
	}
	rc.Nontrivial = rc.Extra["hb_accepted"] > 3 && rc.Extra["model_events"] > 0
	rc.Note("%s: streams=%d heartbeats/stream=%d accepted=%d rejected=%d stale-sent=%d model-events=%d displaced=%d regions=%d", rc.Mode, nStreams, nHB,
		rc.Extra["hb_accepted"], rc.Extra["hb_rejected"], rc.Extra["stale_or_duplicate_sent"], rc.Extra["model_events"], rc.Extra["displaced"], len(w.M.SortedRegions()))
	rc.State(fmt.Sprintf("%s acc=%d rej=%d disp=%d", rc.Mode, min(rc.Extra["hb_accepted"]/20, 6), min(rc.Extra["hb_rejected"]/10, 6), min(rc.Extra["displaced"], 6)))
}

func init() {
	ec.Register(&ec.Profile{
		Property: "C06", Level: "exploration",
		Modes:    []string{"sequential", "concurrent", "concurrent"},
		Body:     c06,
		MaxSteps: 3000000, MaxTime: 20 * time.Minute,
		QuickBudget: 60 * time.Second, ThoroughBudget: 15 * time.Minute,
		Rule: "one run = a bootstrapped real PD leader with 3-5 stores; a TiKV model produces an arbitrary split / merge / conf-change / leader-change / statistics history; heartbeats (fresh, and earlier ones re-delivered: delayed, duplicated, reordered) are handled by the real RaftCluster.HandleRegionHeartbeat, one at a time (sequential) or from 2-4 concurrent streams interleaved at lock / storage-call granularity (concurrent). Monitors after every scheduler step: per region id the served version / conf_ver / term never decrease; no two served regions overlap. Sequential mode additionally: a stale heartbeat is refused and leaves the cache digest unchanged, a fresh one is accepted, regions displaced by an accepted heartbeat are gone from the cache and (after a flush) from storage. non-trivial = >3 accepted heartbeats and at least one model event",
		Real: realCluster, Stub: stubCluster,
	})
}
