package e2

import (
	"context"
	"fmt"
	"time"

	"github.com/pingcap/kvproto/pkg/metapb"
	"github.com/pingcap/kvproto/pkg/pdpb"
	"github.com/tikv/pd/pkg/grpcutil"
	"github.com/tikv/pd/server/core"
	"github.com/tikv/pd/server/kv"
	syncer "github.com/tikv/pd/server/region_syncer"

	ec "pdsim/engine/core"
	"pdsim/simdisk"
	"pdsim/simnet"
	"pdsim/simrt"
)

// C16: followers converge to the leader's region view through region sync.

func c16(rc *corepkg) {
	if rc.Mode == "history" {
		c16History(rc)
	} else {
		c16Sync(rc)
	}
}

func mkRegionInfo(id uint64, i int, ver uint64, leaderStore uint64, flow uint64) *core.RegionInfo {
	m := &metapb.Region{Id: id, StartKey: keyOf(i, 0), EndKey: keyOf(i+1, 0), RegionEpoch: &metapb.RegionEpoch{ConfVer: 1, Version: ver},
		Peers: []*metapb.Peer{{Id: id*10 + 1, StoreId: 1}, {Id: id*10 + 2, StoreId: 2}, {Id: id*10 + 3, StoreId: 3}}}
	var leader *metapb.Peer
	if leaderStore > 0 {
		leader = m.Peers[leaderStore-1]
	}
	return core.NewRegionInfo(m, leader, core.SetWrittenBytes(flow), core.SetWrittenKeys(flow/2), core.SetReadBytes(flow*3), core.SetReadKeys(flow/3))
}

func c16History(rc *corepkg) {
	s := rc.S
	capacity := []int{1, 2, 3, 7, 50, 99, 100, 101, 300}[rc.Knob("capacity", 9)]
	store := kv.NewMemoryKV()
	h := syncer.SimNewHistory(capacity, store)
	// reference: the full log; the window is the last `capacity` records since the last reset
	type rec struct {
		idx uint64
		id  uint64
	}
	var log []rec
	next := uint64(0)
	nOps := 20 + rc.Knob("ops", 600)
	nextRegion := uint64(1)
	check := func(idx uint64) bool {
		got := h.RecordsFrom(idx)
		var want []uint64
		first := next - uint64(len(log))
		if idx >= first && idx < next {
			for _, r := range log[idx-first:] {
				want = append(want, r.id)
			}
		}
		if len(got) != len(want) {
			rc.Violate("c16.history", "wrong-records", "capacity %d, window [%d,%d): RecordsFrom(%d) returned %d records, expected %d", capacity, first, next, idx, len(got), len(want))
			return false
		}
		for i := range got {
			if got[i].GetID() != want[i] {
				rc.Violate("c16.history", "wrong-records", "capacity %d, window [%d,%d): RecordsFrom(%d)[%d] is region %d, expected %d", capacity, first, next, idx, i, got[i].GetID(), want[i])
				return false
			}
		}
		return true
	}
	resets, restarts := 0, 0
	// ResetWithIndex does not store the new index: until the flush interval (100 records, the figure of the statement)
	// has passed since a reset the stored index is that of before the reset and a restart may legitimately come up
	// anywhere. `stale` says that this window is open; it closes after 100 further records or at a restart.
	stale, sinceReset := false, 0
	for k := 0; k < nOps && len(rc.Viol) == 0; k++ {
		switch op := s.Choose(20, "h.op"); {
		case op < 14:
			n := 1
			if s.Choose(5, "h.burst") == 0 {
				n = 1 + s.Choose(capacity+5, "h.burst.n")
			}
			for j := 0; j < n; j++ {
				h.Record(mkRegionInfo(nextRegion, int(nextRegion), 1, 1, 0))
				log = append(log, rec{next, nextRegion})
				if len(log) > capacity {
					log = log[1:]
				}
				next++
				nextRegion++
				if sinceReset++; sinceReset >= 100 {
					stale = false
				}
			}
		case op < 17:
			first := next - uint64(len(log))
			// inside, at the edges, and outside the window
			for _, idx := range []uint64{first, next - 1, first + uint64(s.Choose(len(log)+1, "h.in")), next, next + 1, first - 1, uint64(s.Choose(int(next)+2, "h.any"))} {
				if !check(idx) {
					return
				}
			}
		case op < 18:
			next = uint64(s.Choose(int(next)+50, "h.reset"))
			h.ResetWithIndex(next)
			log = nil
			resets++
			stale, sinceReset = true, 0
		default:
			// restart: a new buffer on the same storage
			prev := next
			h = syncer.SimNewHistory(capacity, store)
			got := h.GetNextIndex()
			restarts++
			if got > prev && !stale {
				rc.Violate("c16.history", "index-ahead-after-restart", "next index after restart is %d, before it was %d", got, prev)
				return
			}
			if got <= prev && prev-got > 100 && !stale {
				rc.Violate("c16.history", "index-too-far-back-after-restart", "next index went back from %d to %d (> 100 records) over a restart", prev, got)
				return
			}
			next = got
			log = nil
			stale = false
		}
		if h.GetNextIndex() != next {
			rc.Violate("c16.history", "wrong-next-index", "next index is %d, expected %d", h.GetNextIndex(), next)
			return
		}
	}
	rc.Nontrivial = next > uint64(capacity)
	rc.Note("history: capacity=%d ops=%d next=%d resets=%d restarts=%d", capacity, nOps, next, resets, restarts)
	rc.State(fmt.Sprintf("cap=%d wrap=%v", capacity, next > uint64(capacity)))
}

// ---- full / incremental synchronisation between a leader-side and a follower-side RegionSyncer

type fakeSyncServer struct {
	ctx     context.Context
	name    string
	url     string
	storage *core.Storage
	bc      *core.BasicCluster
	leader  *pdpb.Member
}

func (f *fakeSyncServer) LoopContext() context.Context { return f.ctx }
func (f *fakeSyncServer) ClusterID() uint64            { return 7 }
func (f *fakeSyncServer) GetMemberInfo() *pdpb.Member {
	return &pdpb.Member{Name: f.name, MemberId: 1, ClientUrls: []string{f.url}}
}
func (f *fakeSyncServer) GetLeader() *pdpb.Member             { return f.leader }
func (f *fakeSyncServer) GetStorage() *core.Storage           { return f.storage }
func (f *fakeSyncServer) Name() string                        { return f.name }
func (f *fakeSyncServer) GetRegions() []*core.RegionInfo      { return f.bc.GetRegions() }
func (f *fakeSyncServer) GetTLSConfig() *grpcutil.TLSConfig   { return &grpcutil.TLSConfig{} }
func (f *fakeSyncServer) GetBasicCluster() *core.BasicCluster { return f.bc }

type syncPDServer struct {
	pdpb.PDServer
	s *syncer.RegionSyncer
}

func (p *syncPDServer) SyncRegions(stream pdpb.PD_SyncRegionsServer) error { return p.s.Sync(stream) }

func c16Sync(rc *corepkg) {
	s := rc.S
	s.SetSchedKnobs(rc.KnobF("p_switch", 0.05, 0.3, 1), rc.KnobF("p_lock", 0, 0.2), 0, 0)
	simdisk.Reset()
	ctx, cancel := context.WithCancel(context.Background())
	s.OnTeardown = append(s.OnTeardown, cancel, simdisk.CloseAll)
	net := simnet.New(s)
	n := []int{0, 1, 2, 50, 99, 100, 101, 150, 199, 200, 201, 250, 333}[rc.Knob("regions", 13)]
	withLeaders := rc.Knob("with_leaders", 3) // 0: none, 1: all, 2: mixed
	mk := func(node int, name string) (*fakeSyncServer, *syncer.RegionSyncer) {
		var fs *fakeSyncServer
		var sy *syncer.RegionSyncer
		runOn(rc, node, "mk-"+name, func() {
			rs, err := core.NewRegionStorage(ctx, "/sim/"+name+"/region-meta", nil)
			if err != nil {
				rc.Anomaly("region storage: %v", err)
				return
			}
			st := core.NewStorage(kv.NewMemoryKV(), core.WithRegionStorage(rs))
			st.SwitchToRegionStorage()
			fs = &fakeSyncServer{ctx: ctx, name: name, url: "http://" + name + ":2379", storage: st, bc: core.NewBasicCluster()}
			sy = syncer.NewRegionSyncer(fs)
		})
		return fs, sy
	}
	L, Ls := mk(0, "pdL")
	F, Fs := mk(1, "pdF")
	if L == nil || F == nil {
		return
	}
	L.leader = L.GetMemberInfo()
	F.leader = L.GetMemberInfo()
	leaderStoreOf := func(i int) uint64 {
		switch withLeaders {
		case 0:
			return 0
		case 1:
			return uint64(1 + i%3)
		}
		if i%4 == 0 {
			return 0
		}
		return uint64(1 + i%3)
	}
	for i := 0; i < n; i++ {
		L.bc.PutRegion(mkRegionInfo(uint64(100+i), i, 1, leaderStoreOf(i), uint64(1000+i)))
	}
	// the leader has been running for a while (or was restarted): its change log starts at a positive index
	// with an empty window, so a follower that starts from index 0 gets a full synchronisation
	Ls.SimHistoryOf().ResetWithIndex(uint64(1 + s.Choose(5000, "sync.leaderidx")))
	// reference: what the leader held for (region id, version), and the newest record delivered to the follower
	type truth struct {
		leaderPeer uint64
		flow       uint64
	}
	held := map[[2]uint64]truth{}
	note := func(r *core.RegionInfo) {
		held[[2]uint64{r.GetID(), r.GetMeta().GetRegionEpoch().GetVersion()}] = truth{r.GetLeader().GetId(), r.GetBytesWritten()}
	}
	for _, r := range L.bc.GetRegions() {
		note(r)
	}
	type delivered struct {
		meta   *metapb.Region
		leader *metapb.Peer
		stat   *pdpb.RegionStat
	}
	newest := map[uint64]delivered{}
	net.OnServerSend = func(method string, node int, msg interface{}) {
		resp, ok := msg.(*pdpb.SyncRegionResponse)
		if !ok || len(rc.Viol) > 0 {
			return
		}
		if len(resp.Regions) > 0 && (len(resp.RegionLeaders) != len(resp.Regions) || len(resp.RegionStats) != len(resp.Regions)) {
			rc.Violate("c16.sync", "misaligned-batch", "leader sent %d regions with %d leaders and %d stats (start index %d)", len(resp.Regions), len(resp.RegionLeaders), len(resp.RegionStats), resp.StartIndex)
			return
		}
		for i, m := range resp.Regions {
			t, ok := held[[2]uint64{m.GetId(), m.GetRegionEpoch().GetVersion()}]
			if !ok {
				rc.Violate("c16.sync", "unknown-region-sent", "leader sent region %d version %d which it never held", m.GetId(), m.GetRegionEpoch().GetVersion())
				return
			}
			if resp.RegionLeaders[i].GetId() != t.leaderPeer {
				rc.Violate("c16.sync", "region-leader-differs", "leader sent region %d (entry %d of a batch of %d, start index %d) paired with leader peer %d; it holds leader peer %d", m.GetId(), i, len(resp.Regions), resp.StartIndex, resp.RegionLeaders[i].GetId(), t.leaderPeer)
				return
			}
			if resp.RegionStats[i].GetBytesWritten() != t.flow {
				rc.Violate("c16.sync", "region-flow-differs", "leader sent region %d paired with written bytes %d; it holds %d", m.GetId(), resp.RegionStats[i].GetBytesWritten(), t.flow)
				return
			}
		}
		rc.Extra["batches_sent"]++
	}
	net.OnClientRecv = func(method string, node int, msg interface{}) {
		resp, ok := msg.(*pdpb.SyncRegionResponse)
		if !ok {
			return
		}
		for i, m := range resp.Regions {
			if cur, ok := newest[m.GetId()]; ok && cur.meta.GetRegionEpoch().GetVersion() > m.GetRegionEpoch().GetVersion() {
				continue
			}
			d := delivered{meta: m}
			if len(resp.RegionLeaders) > i {
				d.leader = resp.RegionLeaders[i]
			}
			if len(resp.RegionStats) > i {
				d.stat = resp.RegionStats[i]
			}
			newest[m.GetId()] = d
		}
		rc.Extra["regions_delivered"] += len(resp.Regions)
	}
	net.Register(L.url, 0, ctx, &syncPDServer{s: Ls})
	notifier := make(chan *core.RegionInfo, 2048)
	quit := make(chan struct{})
	s.Spawn(0, "syncer-run-server", func() { Ls.RunServer(notifier, quit) })
	runOn(rc, 1, "start-sync", func() { Fs.StartSyncWithLeader(L.url) })
	// let the full synchronisation finish
	simrt.Sleep(time.Duration(2+s.Choose(3, "sync.wait")) * time.Second)
	// incremental changes while connected, with the follower restarting its stream now and then
	nChanges := rc.Knob("changes", 4) * 40
	ver := uint64(1)
	for k := 0; k < nChanges && n > 0; k++ {
		i := s.Choose(n, "chg.i")
		ver++
		r := mkRegionInfo(uint64(100+i), i, ver, uint64(1+s.Choose(3, "chg.leader")), uint64(s.Choose(100000, "chg.flow")))
		L.bc.PutRegion(r)
		note(r)
		select {
		case notifier <- r:
		default:
		}
		if s.Choose(40, "chg.reset") == 0 {
			runOn(rc, 1, "restart-sync", func() {
				Fs.StopSyncWithLeader()
				Fs.StartSyncWithLeader(L.url)
			})
			rc.Extra["stream_restarts"]++
		}
		if s.Choose(5, "chg.sleep") == 0 {
			simrt.Sleep(time.Duration(s.Choose(300, "chg.sleep.d")) * time.Millisecond)
		}
	}
	// quiesce
	simrt.Sleep(15 * time.Second)
	// every region delivered to the follower: the follower holds exactly the newest delivered record
	for id, d := range newest {
		fr := F.bc.GetRegion(id)
		if fr == nil {
			rc.Violate("c16.sync", "region-missing-on-follower", "region %d was delivered to the follower but is not in its cache", id)
			return
		}
		if string(marshal(fr.GetMeta())) != string(marshal(d.meta)) {
			rc.Violate("c16.sync", "region-meta-differs", "region %d: follower has %v, the newest delivered record is %v", id, fr.GetMeta(), d.meta)
			return
		}
		if fr.GetLeader().GetId() != d.leader.GetId() {
			rc.Violate("c16.sync", "region-leader-differs", "region %d: follower has leader %v, delivered leader %v", id, fr.GetLeader(), d.leader)
			return
		}
		if fr.GetBytesWritten() != d.stat.GetBytesWritten() || fr.GetKeysWritten() != d.stat.GetKeysWritten() || fr.GetBytesRead() != d.stat.GetBytesRead() || fr.GetKeysRead() != d.stat.GetKeysRead() {
			rc.Violate("c16.sync", "region-flow-differs", "region %d: follower flow (%d,%d,%d,%d), delivered %v", id, fr.GetBytesWritten(), fr.GetKeysWritten(), fr.GetBytesRead(), fr.GetKeysRead(), d.stat)
			return
		}
	}
	// a full synchronisation covers every region the leader held when it was served
	if n > 0 && len(newest) < n && rc.Extra["stream_restarts"] == 0 {
		rc.Violate("c16.sync", "full-sync-incomplete", "the leader holds %d regions but only %d were delivered by the full synchronisation", n, len(newest))
		return
	}
	close(quit)
	rc.Nontrivial = n > 0
	rc.Note("sync: regions=%d leaders=%d incremental-changes=%d stream-restarts=%d", n, withLeaders, nChanges, rc.Extra["stream_restarts"])
	rc.State(fmt.Sprintf("n=%d ldr=%d chg=%d", n, withLeaders, nChanges))
}

func init() {
	ec.Register(&ec.Profile{
		Property: "C16", Level: "exploration",
		Modes:    []string{"history", "sync", "sync"},
		Body:     c16,
		MaxSteps: 3000000, MaxTime: 10 * time.Minute,
		QuickBudget: 45 * time.Second, ThoroughBudget: 10 * time.Minute,
		Rule: "modes: (history) the real change-log buffer with capacities 1..300 driven by random record bursts / reads inside, at the edges and outside the window / resets / restarts on the same storage, compared record by record with a slice model, next index after a restart never ahead of and at most 100 behind the previous one (unchecked only between a ResetWithIndex, which does not store the index, and the 100th record after it); (sync) a leader-side and a follower-side real RegionSyncer (real Sync / syncHistoryRegion / RunServer / StartSyncWithLeader code) connected through the simulated network, leader holding 0..333 regions with/without leaders and flow statistics, full synchronisation followed by incremental changes and follower stream restarts under a seeded schedule; after quiescence every region the leader holds must have the same range, peers, leader and flow statistics on the follower. non-trivial = buffer wrapped (history) or at least one region (sync)",
		Real: append([]string{"server/region_syncer (history buffer, server, client)"}, realE2...), Stub: append([]string{"gRPC transport (simnet streams)", "PD Server around the syncer (minimal Server interface implementation)"}, stubE2...),
	})
}
