package e2

import (
	"fmt"
	"regexp"
	"sort"
	"strconv"
	"strings"
	"time"

	"github.com/pingcap/kvproto/pkg/metapb"
	"github.com/pingcap/kvproto/pkg/pdpb"
	"github.com/tikv/pd/server/schedule/operator"
	"github.com/tikv/pd/server/schedule/placement"

	ec "pdsim/engine/core"
	"pdsim/simrt"
	"pdsim/simtikv"
)

// C08: generated operator steps are safe and reach the requested placement (simulation-produced operators,
//      executed step by step by the TiKV model).
// C09: operator lifecycle: one per region, epoch-checked, stale ones cancelled.

type adminIntent struct {
	kind    string
	region  uint64
	stores  map[uint64]string // store -> role (transfer-region)
	to      uint64
	from    uint64
	issued  int
	foreign int      // foreignAny of the region when issued
	op      *opTrack // the operator that was admitted for this request
}

var adminDesc = map[string]string{"transfer-leader": "admin-transfer-leader", "transfer-region": "admin-move-region", "transfer-peer": "admin-move-peer",
	"add-peer": "admin-add-peer", "add-learner": "admin-add-learner", "remove-peer": "admin-remove-peer", "merge": "admin-merge-region", "split": "admin-split-region"}

var curStepRe = regexp.MustCompile(`currentStep:(\d+)`)

func endStatus(s operator.OpStatus) bool { return operator.IsEndStatus(s) }

func runOpWorld(rc *corepkg, prop string) {
	s := rc.S
	nStores := 3 + rc.Knob("extra_stores", 4)
	replicas := []int{1, 3, 3, 5}[rc.Knob("replicas", 4)]
	if replicas > nStores {
		replicas = 3
	}
	joint := rc.Knob("joint_consensus", 2) == 1
	foreignEvents := prop == "c09" && rc.Knob("foreign_events", 3) != 0
	// a cluster of TiKV 4.x stores: PD must neither use joint consensus nor demote voters
	storeVersion := []string{"", "", "4.0.9"}[rc.Knob("old_cluster", 3)]
	ow := newOpWorld(rc, opWorldOpts{worldOpts: worldOpts{stores: nStores, replicas: replicas, fastPatrol: true, storeVersion: storeVersion,
		cfgTweak: func(c *configT) {
			scheduleTweak(replicas, nil, "", false)(c)
			c.Schedule.EnableJointConsensus = joint
			// the replica checker would fight the admin operators: keep it from interfering with learners / extra peers
			c.Schedule.EnableMakeUpReplica = false
			// ... except, in some C09 runs, the removal of extra replicas: a normal-priority operator that the admin's
			// high-priority operators replace
			c.Schedule.EnableRemoveExtraReplica = prop == "c09" && rc.Knob("extra_replica_checker", 3) == 1
			c.Schedule.EnableReplaceOfflineReplica = false
			c.Schedule.EnableRemoveDownReplica = false
			c.Schedule.EnableLocationReplacement = false
			c.Schedule.MaxMergeRegionSize = 0
		}},
		regions: 2 + rc.Knob("regions", 6), hbEvery: rc.KnobD("hb_every", 500*time.Millisecond, 2*time.Second), cmdDelay: rc.KnobD("cmd_delay", 0, 300*time.Millisecond, 3*time.Second)})
	if ow == nil {
		return
	}
	h := ow.Srv.GetHandler()
	raceAdmin := prop == "c09" && rc.Knob("admin_races_checkers", 2) == 1
	intents := map[uint64]*adminIntent{} // region -> latest admin intent
	adminRemoved := map[uint64][]int{}   // region -> steps at which the admin removed its operator
	// ---- C09: status transitions, admission epoch, end status remembered
	statusSeen := map[*operator.Operator][]operator.OpStatus{}
	s.AddMonitor(func() {
		for _, t := range ow.opOrder {
			st := t.op.Status()
			if st == t.lastStatus {
				continue
			}
			prev := t.lastStatus
			t.lastStatus = st
			statusSeen[t.op] = append(statusSeen[t.op], st)
			if prop != "c09" {
				continue
			}
			if endStatus(prev) {
				rc.Violate("c09.status", "end-status-left", "operator %s of region %d went from end status %s to %s", t.desc, t.region, operator.OpStatusToString(prev), operator.OpStatusToString(st))
				return
			}
			if prev == operator.STARTED && (st == operator.CREATED || st == operator.EXPIRED) {
				rc.Violate("c09.status", "illegal-status-transition", "operator %s of region %d went %s -> %s", t.desc, t.region, operator.OpStatusToString(prev), operator.OpStatusToString(st))
				return
			}
		}
	})
	type rememberCheck struct {
		t        *opTrack
		deadline int
	}
	var pendingRemember, pendingEnd []rememberCheck
	s.AddMonitor(func() {
		keepE := pendingEnd[:0]
		for _, pe := range pendingEnd {
			if st := pe.t.op.Status(); endStatus(st) {
				pendingRemember = append(pendingRemember, rememberCheck{pe.t, s.Step + 300})
			} else if s.Step > pe.deadline {
				rc.Violate("c09.status", "left-running-set-without-end-status", "operator %s of region %d left the running set and is still in status %s", pe.t.desc, pe.t.region, operator.OpStatusToString(st))
				return
			} else {
				keepE = append(keepE, pe)
			}
		}
		pendingEnd = keepE
		if len(pendingRemember) == 0 {
			return
		}
		keep := pendingRemember[:0]
		for _, pr := range pendingRemember {
			t := pr.t
			st := t.op.Status()
			rec := ow.oc.GetOperatorStatus(t.region)
			switch {
			case rec != nil && rec.Op == t.op && rec.Status == operator.OpStatusToPDPB(st):
				// remembered
			case rec != nil && rec.Op != t.op:
				// a newer operator of the same region took the slot
			case s.Step > pr.deadline && rec == nil:
				rc.Violate("c09.status", "ended-operator-not-remembered", "operator %s of region %d ended (%s) but GetOperatorStatus has no record", t.desc, t.region, operator.OpStatusToString(st))
				return
			case s.Step > pr.deadline:
				rc.Violate("c09.status", "ended-operator-remembered-wrongly", "operator %s of region %d ended %s but is remembered as %v", t.desc, t.region, operator.OpStatusToString(st), rec.Status)
				return
			default:
				keep = append(keep, pr)
			}
		}
		pendingRemember = keep
	})
	ow.onNewOp = func(t *opTrack) {
		if in := intents[t.region]; in != nil && in.op == nil && adminDesc[in.kind] == t.desc {
			in.op = t
		}
		if prop != "c09" {
			return
		}
		// admitted only if its recorded epoch equals the region's current epoch (as PD serves it)
		pr := ow.pdRegion(t.region)
		if pr == nil && len(ow.epochHist[t.region]) == 0 {
			rc.Violate("c09.admit", "operator-for-unknown-region", "operator %s admitted for region %d which PD never served", t.desc, t.region)
			return
		}
		oe := t.op.RegionEpoch()
		var ce interface{} = "gone"
		if pr != nil {
			ce = pr.GetRegionEpoch()
		}
		// (the operator was admitted at some step after the previous evaluation of this monitor)
		if !ow.epochServedBetween(t.region, oe.GetVersion(), oe.GetConfVer(), ow.prevMon, s.Step) {
			rc.Violate("c09.admit", "admitted-with-stale-epoch", "operator %s admitted for region %d with recorded epoch %v while the region's current epoch is %v", t.desc, t.region, oe, ce)
			return
		}
		if st := t.op.Status(); st != operator.STARTED && st != operator.CREATED && !endStatus(st) {
			rc.Violate("c09.status", "illegal-status-transition", "operator %s in the running set has status %s", t.desc, operator.OpStatusToString(st))
		}
	}
	ow.onOpEnd = func(t *opTrack) {
		st := t.op.Status()
		if prop == "c08" && st == operator.CANCELED && ow.foreignAny[t.region] == t.foreignAtAdmit && len(adminRemoved[t.region]) == 0 {
			// nothing but the operator's own steps touched the region: a cancellation means one of its steps found its
			// precondition broken when its turn came
			if r := ow.M.Regions[t.region]; r != nil && !r.Merged && ow.leaderStoreUp(r) {
				note := ""
				for i := 0; i < t.op.Len(); i++ {
					if al, ok := t.op.Step(i).(operator.AddLearner); ok {
						for _, p := range t.originPeers {
							if p.StoreID == al.ToStore && p.Role != metapb.PeerRole_Learner {
								note = fmt.Sprintf(" (step %d adds a learner on store %d which still holds the voter it is meant to replace; store version %q)", i, al.ToStore, storeVersion)
							}
						}
					}
				}
				rc.Violate("c08.step", "own-step-precondition-failed", "operator %s of region %d was cancelled at step %d of %d although only its own steps changed the region (model region now peers %v leader %d): %s%s", t.desc, t.region, t.cancelStepHint(), t.op.Len(), r.Peers, r.Leader, t.stepsText(), note)
				return
			}
		}
		if prop == "c09" {
			if !endStatus(st) {
				// the end status is set right after the removal from the set, outside the controller's lock: re-check shortly
				pendingEnd = append(pendingEnd, rememberCheck{t, s.Step + 300})
				return
			}
			// ... and remembered as such (the record is written right after the removal, outside the controller's
			// lock: give the removing task a few scheduler steps to get there)
			pendingRemember = append(pendingRemember, rememberCheck{t, s.Step + 300})
			// while the region changes only through the operator's own steps it is never judged stale
			if st == operator.CANCELED && ow.foreignAny[t.region] == t.foreignAtAdmit {
				removedByAdmin := false
				for _, st := range adminRemoved[t.region] {
					if st >= t.firstSeen {
						removedByAdmin = true
					}
				}
				if !removedByAdmin {
					if r := ow.M.Regions[t.region]; r != nil && !r.Merged && ow.leaderStoreUp(r) {
						pr := ow.pdRegion(t.region)
						// C09 allows a cancellation when the current step's own precondition does not hold (whether a step may
						// find its precondition broken without foreign interference is C08's question, not this one's)
						// (the operator's own notion of its current step: it has ended, so printing it has no side effect any more)
						if m := curStepRe.FindStringSubmatch(t.op.String()); pr != nil && m != nil {
							if i, _ := strconv.Atoi(m[1]); i < t.op.Len() && t.op.Step(i).CheckSafety(pr) != nil {
								rc.Extra["cancelled_by_own_step_precondition"]++
								return
							}
						}
						diag := ""
						if pr != nil {
							diag = fmt.Sprintf("PD serves epoch %v leader store %d; recorded epoch %v; conf_ver diff %d vs accounted %d; steps %d", pr.GetRegionEpoch(), pr.GetLeader().GetStoreId(), t.op.RegionEpoch(),
								pr.GetRegionEpoch().GetConfVer()-t.op.RegionEpoch().GetConfVer(), t.op.ConfVerChanged(pr), t.op.Len())
						}
						rc.Violate("c09.stale", "cancelled-without-foreign-change", "operator %s of region %d was cancelled although the region only changed through its own steps (statuses %v): %s; model region now %v/%v peers %v leader %d", t.desc, t.region, statusSeen[t.op], diag, r.Ver, r.ConfVer, r.Peers, r.Leader)
						return
					}
				}
			}
		}
		if prop == "c08" && st == operator.SUCCESS && ow.foreignAny[t.region] == t.foreignAtAdmit {
			checkFinalState(rc, ow, t, intents[t.region])
		}
	}
	// ---- commands: addressed to the current leader with the current epoch (as last reported); step safety
	ow.E.W.Net.OnServerSend = func(method string, node int, msg interface{}) {
		resp, ok := msg.(*pdpb.RegionHeartbeatResponse)
		if ok {
			ow.noteSent(resp)
		}
		if !ok || prop != "c09" || resp.GetRegionId() == 0 || resp.GetHeader().GetError() != nil {
			return
		}
		// no command may remove or demote the very peer it is addressed to as the leader (the step's precondition does
		// not hold, so the operator had to be cancelled instead)
		// (the first command goes out while the operator is being admitted, without a safety check: an operator built
		// just before a leader change may ask for it once; from the next heartbeat on PD must know better)
		dispatched := false
		for _, t := range ow.opOrder {
			if !t.left && t.region == resp.GetRegionId() && cmdMatchesOp(resp, t.op) && time.Since(t.op.GetStartTime()) > 50*time.Millisecond {
				dispatched = true
			}
		}
		if cp := resp.GetChangePeer(); dispatched && cp != nil && cp.GetPeer().GetId() == resp.GetTargetPeer().GetId() && resp.GetTargetPeer().GetId() != 0 &&
			(cp.GetChangeType().String() == "RemoveNode" || cp.GetChangeType().String() == "AddLearnerNode") {
			rc.Violate("c09.command", "command-changes-the-leader-it-is-sent-to", "PD sent %s of peer %d of region %d to that very peer as the region's leader", cp.GetChangeType(), cp.GetPeer().GetId(), resp.GetRegionId())
		}
		// the command must carry the epoch and leader of some heartbeat PD has received for the region
		okEpoch := false
		for _, hb := range ow.sentHB[resp.GetRegionId()] {
			if hb.ver == resp.GetRegionEpoch().GetVersion() && hb.conf == resp.GetRegionEpoch().GetConfVer() && hb.leader == resp.GetTargetPeer().GetId() {
				okEpoch = true
			}
		}
		// as soon as the configuration version has advanced by more than the operator's own steps account for, the
		// operator is cancelled: no command of it may carry an epoch that includes an unaccountable foreign change
		for _, t := range ow.opOrder {
			if t.left || t.region != resp.GetRegionId() || t.op.Status() != operator.STARTED || !cmdMatchesOp(resp, t.op) {
				continue
			}
			for _, fc := range ow.foreignConfs[t.region] {
				if fc.step > t.firstSeen && fc.post <= resp.GetRegionEpoch().GetConfVer() && !fc.accountable(t.op) {
					rc.Violate("c09.stale", "stale-operator-still-driven", "operator %s of region %d (recorded epoch %v) still sends a command with epoch %v although a foreign %s on store %d had moved conf_ver to %d", t.desc, t.region, t.op.RegionEpoch(), resp.GetRegionEpoch(), fc.kind, fc.store, fc.post)
				}
			}
		}
		if !okEpoch {
			rc.Violate("c09.command", "command-with-unreported-epoch-or-leader", "command for region %d carries epoch %v / target peer %d, which matches no heartbeat the region sent", resp.GetRegionId(), resp.GetRegionEpoch(), resp.GetTargetPeer().GetId())
		}
	}
	ow.onCmd = func(c *cmdRecord) {
		if prop == "c08" && storeVersion != "" && (c.res.Kind == "enter-joint" || c.res.Kind == "leave-joint" || c.res.Kind == "demote-follower") {
			rc.Violate("c08.step", "step-unsupported-by-cluster-version", "PD ordered a %s of region %d although the stores run TiKV %s, which has neither joint consensus nor demotion", c.res.Kind, c.region, storeVersion)
		}
		// C09: an admin request for the region arrives just while a checker's (lower priority) operator completes: the
		// replacement races with the heartbeat that reports the completion
		if prop == "c09" && raceAdmin && c.res.Applied && c.owner != nil && !strings.HasPrefix(c.owner.desc, "admin-") && s.Choose(2, "adm.racecheck") == 0 {
			region := c.region
			rc.Extra["admin_races_checker_op"]++
			s.Spawn(-1, "admin-race", func() {
				simrt.Sleep(time.Duration(s.Choose(3, "adm.race.delay")) * time.Millisecond)
				r := ow.M.Regions[region]
				if r == nil || r.Merged || len(r.Peers) == 0 {
					return
				}
				to := r.Peers[s.Choose(len(r.Peers), "adm.race.peer")].StoreID
				ow.onPD("admin-operator", func() {
					if s.Choose(2, "adm.race.kind") == 0 {
						h.AddTransferLeaderOperator(region, to)
					} else {
						h.AddRemovePeerOperator(region, to)
					}
				})
			})
		}
		if prop != "c08" || c.res.Applied || c.res.Kind == "" {
			return
		}
		// a refusal at equal epoch and leader is PD asking for something unsafe
		switch {
		case c.res.Kind == "remove-node" && c.res.Why == "refused: peer is the leader":
			rc.Violate("c08.step", "step-removes-leader", "PD ordered the removal of peer %d of region %d which is the leader at that moment", c.resp.GetChangePeer().GetPeer().GetId(), c.region)
		case c.res.Kind == "remove-node" && c.res.Why == "refused: last voter":
			rc.Violate("c08.step", "step-removes-last-voter", "PD ordered the removal of the last voter of region %d", c.region)
		case c.res.Kind == "demote-follower" && c.res.Why == "refused: peer is the leader":
			rc.Violate("c08.step", "step-demotes-leader", "PD ordered the demotion of peer %d of region %d which is the leader at that moment", c.resp.GetChangePeer().GetPeer().GetId(), c.region)
		case c.res.Kind == "demote-follower" && c.res.Why == "refused: last voter":
			rc.Violate("c08.step", "step-removes-last-voter", "PD ordered the demotion of the last voter of region %d", c.region)
		case c.res.Kind == "leave-joint" && c.res.Why == "refused: leader is demoting":
			rc.Violate("c08.step", "leave-joint-with-demoting-leader", "PD ordered region %d to leave the joint state while its leader is a demoting voter", c.region)
		case c.res.Kind == "transfer-leader" && c.res.Why == "target is not a voter":
			rc.Violate("c08.step", "transfer-to-non-voter", "PD ordered a leader transfer of region %d to peer %d which is a learner, demoting or absent", c.region, c.resp.GetTransferLeader().GetPeer().GetId())
		case (c.res.Kind == "add-node" || c.res.Kind == "add-learner") && (c.res.Why == "store already has a peer" || c.res.Why == "peer or store already present"):
			rc.Violate("c08.step", "two-peers-on-one-store", "PD ordered a new peer of region %d on store %d which already holds one", c.region, c.resp.GetChangePeer().GetPeer().GetStoreId())
		}
	}
	if prop == "c08" {
		// after every applied step the voter count stays >= min(origin, target); checked when the operator ends successfully
		prevOnEnd := ow.onOpEnd
		ow.onOpEnd = func(t *opTrack) {
			prevOnEnd(t)
			if t.op.Status() != operator.SUCCESS || ow.foreignAny[t.region] != t.foreignAtAdmit {
				return
			}
			countVoters := func(ps []simtikv.Peer) int {
				n := 0
				for _, p := range ps {
					if p.Role != metapb.PeerRole_Learner {
						n++
					}
				}
				return n
			}
			var own []*cmdRecord
			for i := range ow.cmds {
				if ow.cmds[i].owner == t && ow.cmds[i].res.Applied && ow.cmds[i].res.Kind != "merge" && ow.cmds[i].res.Kind != "split" {
					own = append(own, &ow.cmds[i])
				}
			}
			if len(own) == 0 {
				return
			}
			origin, final := own[0].voters, countVoters(own[len(own)-1].after)
			floor := min(origin, final)
			for _, c := range own {
				if v := countVoters(c.after); v < floor {
					rc.Violate("c08.step", "voter-count-dipped", "while operator %s ran on region %d the voter count was %d after its %s step, below min(origin %d, target %d)", t.desc, t.region, v, c.res.Kind, origin, final)
					return
				}
			}
		}
	}
	ow.start()
	simrt.Sleep(3 * time.Second)
	if prop == "c09" && rc.Knob("influence_observer", 2) == 1 {
		// schedulers look at the influence of the running operators all the time (which also makes an operator notice
		// that its time is up); they are disabled in this world, so a task does it in their place
		s.Spawn(-1, "influence-observer", func() {
			for !ow.stop && len(rc.Viol) == 0 {
				ow.onPD("op-influence", func() { ow.oc.GetOpInfluence(ow.Cl) })
				simrt.Sleep(time.Duration(300+s.Choose(2000, "obs.gap")) * time.Millisecond)
			}
		})
	}
	// ---- admin client
	nOps := 4 + rc.Knob("admin_ops", 20)
	done := false
	s.Spawn(-1, "admin", func() {
		defer func() { done = true }()
		for i := 0; i < nOps && len(rc.Viol) == 0; i++ {
			rs := ow.M.SortedRegions()
			r := rs[s.Choose(len(rs), "adm.region")]
			var storeIDs []uint64
			for id := range ow.M.Stores {
				storeIDs = append(storeIDs, id)
			}
			sort.Slice(storeIDs, func(a, b int) bool { return storeIDs[a] < storeIDs[b] })
			pickStore := func(label string) uint64 { return storeIDs[s.Choose(len(storeIDs), label)] }
			in := &adminIntent{region: r.ID, issued: s.Step, foreign: ow.foreignAny[r.ID]}
			var err error
			prevIntent := intents[r.ID]
			// registered before the call: the operator may be admitted (and observed) before the call returns
			intents[r.ID] = in
			call := func(f func() error) { ow.onPD("admin-operator", func() { err = f() }) }
			if foreignEvents && s.Choose(5, "adm.race") == 0 {
				// a foreign change of the very region, its heartbeat racing with the admin request
				ow.foreignEventOn(r)
				in.foreign = ow.foreignAny[r.ID]
				simrt.Sleep(time.Duration(s.Choose(4, "adm.race.at")) * time.Millisecond)
				rc.Extra["foreign_race"]++
			}
			switch s.Choose(10, "adm.kind") {
			case 0:
				var voters []uint64
				for _, p := range r.Peers {
					if p.Role == metapb.PeerRole_Voter {
						voters = append(voters, p.StoreID)
					}
				}
				in.kind, in.to = "transfer-leader", voters[s.Choose(len(voters), "adm.voter")]
				call(func() error { return h.AddTransferLeaderOperator(r.ID, in.to) })
			case 1, 2, 3:
				in.kind, in.stores = "transfer-region", map[uint64]string{}
				n := 1 + s.Choose(min(4, len(storeIDs)), "adm.n")
				roles := map[uint64]placement.PeerRoleType{}
				first := s.Choose(len(storeIDs), "adm.target")
				stride := 1 + s.Choose(len(storeIDs)-1, "adm.stride")
				for k := 0; len(roles) < n && k < 2*len(storeIDs); k++ {
					id := storeIDs[(first+k*stride)%len(storeIDs)]
					role := placement.Voter
					if len(roles) > 0 && s.Choose(4, "adm.learner") == 0 {
						role = placement.Learner
					}
					if _, dup := roles[id]; !dup {
						roles[id] = role
						in.stores[id] = string(role)
					}
				}
				call(func() error { return h.AddTransferRegionOperator(r.ID, roles) })
			case 4:
				in.kind, in.from, in.to = "transfer-peer", r.Peers[s.Choose(len(r.Peers), "adm.from")].StoreID, pickStore("adm.to")
				call(func() error { return h.AddTransferPeerOperator(r.ID, in.from, in.to) })
			case 5:
				in.kind, in.to = "add-peer", pickStore("adm.to")
				call(func() error { return h.AddAddPeerOperator(r.ID, in.to) })
			case 6:
				in.kind, in.to = "add-learner", pickStore("adm.to")
				call(func() error { return h.AddAddLearnerOperator(r.ID, in.to) })
			case 7:
				in.kind, in.from = "remove-peer", r.Peers[s.Choose(len(r.Peers), "adm.from")].StoreID
				call(func() error { return h.AddRemovePeerOperator(r.ID, in.from) })
			case 8:
				in.kind = "remove-operator"
				// (while the call is in progress any operator of the region may be the one it removes)
				adminRemoved[r.ID] = append(adminRemoved[r.ID], 1<<60)
				call(func() error { return h.RemoveOperator(r.ID) })
				adminRemoved[r.ID] = adminRemoved[r.ID][:len(adminRemoved[r.ID])-1]
				if err == nil {
					adminRemoved[r.ID] = append(adminRemoved[r.ID], s.Step)
				}
			case 9:
				if n := ow.M.RightNeighbour(r); n != nil && s.Choose(2, "adm.merge") == 0 {
					in.kind, in.to = "merge", n.ID
					call(func() error { return h.AddMergeRegionOperator(r.ID, n.ID) })
				} else {
					in.kind = "split"
					call(func() error { return h.AddSplitRegionOperator(r.ID, "approximate", nil) })
				}
			}
			if err == nil {
				rc.Extra["admin_accepted"]++
			} else {
				intents[r.ID] = prevIntent
				rc.Extra["admin_refused"]++
			}
			// an operator that cannot make progress (its stores ignore the commands), times out after its wait time, and
			// whose region then disappears (merged into its neighbour behind PD's back)
			if foreignEvents && err == nil && rc.Extra["stuck_region_scenarios"] == 0 && s.Choose(30, "adm.vanish") == 0 && !r.Merged {
				rc.Extra["stuck_region_scenarios"]++
				ow.deafUntil[r.ID] = time.Now().Add(30 * time.Minute)
				// the region neither executes commands nor reports; everybody else heartbeats sparsely meanwhile (nothing
				// but the clock matters here); the region disappears shortly after its operator's wait time has run out
				ow.mute[r.ID] = true
				hbWas := ow.hbEvery
				ow.hbEvery = 20 * time.Second
				wait := 10*time.Minute + 10*time.Second
				if op := ow.oc.GetOperator(r.ID); op != nil {
					limit := 10 * time.Minute
					if op.Kind()&operator.OpRegion == 0 {
						limit = 10 * time.Second
					}
					wait = time.Until(op.GetStartTime().Add(limit))
				}
				simrt.Sleep(wait + time.Duration(s.Choose(8000, "adm.vanish.jitter"))*time.Millisecond)
				ow.hbEvery = hbWas
				delete(ow.mute, r.ID)
				if n := ow.M.RightNeighbour(r); n != nil && !r.Merged && !r.InJoint() && !n.InJoint() && simtikv.SameStores(r, n) {
					ow.M.Merge(r, n)
					ow.noteForeign(r.ID)
					ow.noteForeign(n.ID)
					rc.Extra["foreign_merge_of_stuck_region"]++
					ow.sendRegionHB(n)
				}
				delete(ow.deafUntil, r.ID)
				simrt.Sleep(time.Duration(2+s.Choose(10, "adm.vanish.after")) * time.Second)
			}
			// foreign events injected at any point of the execution
			if foreignEvents && s.Choose(3, "adm.foreign") == 0 {
				simrt.Sleep(time.Duration(s.Choose(3000, "adm.foreign.at")) * time.Millisecond)
				ow.foreignEvent()
			}
			simrt.Sleep(time.Duration(500+s.Choose(8000, "adm.gap")) * time.Millisecond)
		}
		// let the last operators finish (or time out: 10 simulated minutes cost nothing)
		simrt.Sleep(time.Duration(20+s.Choose(130, "adm.tail")) * time.Second)
	})
	for !done && len(rc.Viol) == 0 {
		simrt.Sleep(time.Second)
	}
	ow.stop = true
	kinds := 0
	for k := range rc.Extra {
		if len(k) > 3 && k[:3] == "op:" {
			kinds++
		}
	}
	rc.Nontrivial = rc.Extra["operators_admitted"] > 1 && rc.Extra["cmd_transfer-leader_applied"]+rc.Extra["cmd_add-learner_applied"]+rc.Extra["cmd_add-node_applied"]+rc.Extra["cmd_enter-joint_applied"]+rc.Extra["cmd_remove-node_applied"] > 0
	rc.Note("stores=%d replicas=%d joint=%v foreign=%v regions=%d admin ok/refused=%d/%d operators admitted=%d success=%d cancelled=%d timeout=%d replaced=%d commands applied=%d",
		nStores, replicas, joint, foreignEvents, len(ow.M.SortedRegions()), rc.Extra["admin_accepted"], rc.Extra["admin_refused"], rc.Extra["operators_admitted"],
		rc.Extra["operators_ended_Success"], rc.Extra["operators_ended_Canceled"], rc.Extra["operators_ended_Timeout"], rc.Extra["operators_ended_Replaced"], len(ow.cmds))
	rc.State(fmt.Sprintf("%s j=%v adm=%d ok=%d kinds=%d", prop, joint, min(rc.Extra["operators_admitted"], 12), min(rc.Extra["operators_ended_Success"], 8), kinds))
}

func (ow *opWorld) leaderStoreUp(r *simtikv.Region) bool {
	lp := r.LeaderPeer()
	return lp != nil && ow.storeUp[lp.StoreID]
}

// foreignEvent: a configuration / leadership / range change not ordered by PD.
func (ow *opWorld) foreignEvent() {
	rs := ow.M.SortedRegions()
	ow.foreignEventOn(rs[ow.RC.S.Choose(len(rs), "fe.region")])
}

func (ow *opWorld) foreignEventOn(r *simtikv.Region) {
	s := ow.RC.S
	if r.InJoint() {
		return
	}
	switch s.Choose(4, "fe.kind") {
	case 0: // add a learner somewhere
		for id := range ow.M.Stores {
			if r.PeerOnStore(id) == nil {
				r.Peers = append(r.Peers, simtikv.Peer{ID: ow.M.AllocID(), StoreID: id, Role: metapb.PeerRole_Learner})
				r.ConfVer++
				ow.foreign[r.ID]++
				ow.noteForeign(r.ID)
				ow.foreignConfs[r.ID] = append(ow.foreignConfs[r.ID], foreignConf{s.Step, r.ConfVer, "add-learner", id})
				ow.RC.Extra["foreign_conf_change"]++
				ow.sendRegionHB(r)
				return
			}
		}
	case 1: // remove a non-leader peer
		for i, p := range r.Peers {
			if p.ID != r.Leader && (p.Role == metapb.PeerRole_Learner || r.Voters() > 1) {
				r.Peers = append(r.Peers[:i], r.Peers[i+1:]...)
				r.ConfVer++
				ow.foreign[r.ID]++
				ow.noteForeign(r.ID)
				ow.foreignConfs[r.ID] = append(ow.foreignConfs[r.ID], foreignConf{s.Step, r.ConfVer, "remove", p.StoreID})
				ow.RC.Extra["foreign_conf_change"]++
				ow.sendRegionHB(r)
				return
			}
		}
	case 2: // leader change
		for _, p := range r.Peers {
			if p.Role == metapb.PeerRole_Voter && p.ID != r.Leader && ow.storeUp[p.StoreID] {
				r.Elect(p.ID)
				ow.noteForeign(r.ID)
				ow.RC.Extra["foreign_leader_change"]++
				ow.sendRegionHB(r)
				return
			}
		}
	case 3: // split
		hi := r.End
		if hi < 0 {
			hi = ow.M.NumKeys
		}
		if hi-r.Start >= 2 {
			ids := make([]uint64, len(r.Peers))
			nid := ow.M.AllocID()
			for i := range ids {
				ids[i] = ow.M.AllocID()
			}
			left := ow.M.Split(r, r.Start+1+s.Choose(hi-r.Start-1, "fe.at"), nid, ids)
			ow.noteForeign(r.ID)
			ow.noteForeign(left.ID)
			ow.RC.Extra["foreign_split"]++
			ow.sendRegionHB(r)
			ow.sendRegionHB(left)
		}
	}
}

// checkFinalState: for an admin operator that succeeded without foreign interference, the region must be exactly
// as requested.
func checkFinalState(rc *corepkg, ow *opWorld, t *opTrack, in *adminIntent) {
	if in == nil || in.op != t {
		return
	}
	// the state of the region right after the operator's last own command (other operators, e.g. the learner
	// checker, may have changed it again by the time the operator is seen leaving the running set)
	var last *cmdRecord
	for i := range ow.cmds {
		if ow.cmds[i].owner == t && ow.cmds[i].res.Applied {
			last = &ow.cmds[i]
		}
	}
	if last == nil {
		return
	}
	r := &simtikv.Region{ID: t.region, Peers: last.after, Leader: last.leaderAf}
	// at most one peer per store, no joint state left
	if last.inJoint {
		rc.Violate("c08.final", "final-state-in-joint", "operator %s of region %d succeeded but the region is still in a joint state", t.desc, t.region)
		return
	}
	switch in.kind {
	case "transfer-leader":
		if lp := r.LeaderPeer(); lp == nil || lp.StoreID != in.to {
			rc.Violate("c08.final", "final-state-differs", "transfer-leader of region %d to store %d succeeded but the leader is on store %d", t.region, in.to, lp.StoreID)
		}
	case "transfer-region":
		got := map[uint64]string{}
		for _, p := range r.Peers {
			role := "voter"
			if p.Role == metapb.PeerRole_Learner {
				role = "learner"
			}
			got[p.StoreID] = role
		}
		if fmt.Sprint(got) != fmt.Sprint(in.stores) {
			rc.Violate("c08.final", "final-state-differs", "transfer-region of region %d to %v succeeded but the peers are %v", t.region, in.stores, got)
		}
	case "transfer-peer":
		if r.PeerOnStore(in.from) != nil || r.PeerOnStore(in.to) == nil {
			rc.Violate("c08.final", "final-state-differs", "transfer-peer of region %d from store %d to %d succeeded but peers are %v", t.region, in.from, in.to, r.Peers)
		}
	case "add-peer":
		if p := r.PeerOnStore(in.to); p == nil || p.Role != metapb.PeerRole_Voter {
			rc.Violate("c08.final", "final-state-differs", "add-peer of region %d on store %d succeeded but the store holds %v", t.region, in.to, p)
		}
	case "add-learner":
		if p := r.PeerOnStore(in.to); p == nil || p.Role != metapb.PeerRole_Learner {
			rc.Violate("c08.final", "final-state-differs", "add-learner of region %d on store %d succeeded but the store holds %v", t.region, in.to, p)
		}
	case "remove-peer":
		if r.PeerOnStore(in.from) != nil {
			rc.Violate("c08.final", "final-state-differs", "remove-peer of region %d from store %d succeeded but the peer is still there", t.region, in.from)
		}
	}
	rc.Extra["final_state_checked"]++
}

func init() {
	ec.Register(&ec.Profile{
		Property: "C09", Level: "exploration",
		Modes:    []string{"ops"},
		Body:     func(rc *corepkg) { runOpWorld(rc, "c09") },
		MaxSteps: 500000, MaxTime: 25 * time.Minute,
		QuickBudget: 60 * time.Second, ThoroughBudget: 15 * time.Minute,
		Rule: "one run = a bootstrapped real PD leader with the real coordinator and OperatorController, 3-6 stores heartbeating through the real RegionHeartbeat/StoreHeartbeat handlers over simulated streams, a TiKV model executing PD's commands step by step (add learner/peer, promote, remove, joint enter/leave, transfer leader, merge, split) with a drawn delay; an admin client issues 6-35 transfer-leader / transfer-region (voters+learners) / transfer-peer / add-peer / add-learner / remove-peer / merge / split / remove-operator requests through the real Handler, with and without joint consensus; in 2/3 of the runs foreign conf changes, leader changes and splits are injected at arbitrary points. Oracles: status only moves along the allowed graph, end statuses absorbing; an operator first seen in the running set has the region's current epoch; one that left it is in an end status and remembered; every command matches a reported (epoch, leader); an operator is not cancelled while only its own steps changed the region. non-trivial = >1 operator admitted and at least one command applied",
		Real: realCluster, Stub: stubCluster,
	})
	ec.Register(&ec.Profile{
		Property: "C08", Level: "exploration",
		Modes:    []string{"ops"},
		Body:     func(rc *corepkg) { runOpWorld(rc, "c08") },
		MaxSteps: 500000, MaxTime: 25 * time.Minute,
		QuickBudget: 60 * time.Second, ThoroughBudget: 15 * time.Minute,
		Rule:        "the same world as C09 without foreign events: every operator the admin client obtains from the real Handler / operator builder (with and without joint consensus, on regions in whatever state earlier operators left them, voters and learners as targets) is executed step by step by the TiKV model, which refuses what TiKV refuses. Oracles per step: the current leader is never removed or left demoting when leaving a joint state, leadership is never transferred to a learner / demoting / absent peer, no second peer on a store, the last voter is never removed; per successful operator: voter count never below min(origin, target), final peers / roles / leader exactly as requested. The universal claim over all inputs of the builder is NOT decided by this technique (pure function: see level note). non-trivial = as C09",
		Assumptions: []string{"partial claim: only operators produced inside simulated runs are examined (seeded sampling of (origin, target, flags)); Builder.Build itself is a pure function whose universal correctness needs enumeration (another technique family)"},
		Real:        realCluster, Stub: stubCluster,
	})
}
