// Command pdsim is the engine binary: every property profile is registered here.
package main

import (
	"pdsim/engine/core"
	_ "pdsim/engine/e1"
	_ "pdsim/engine/e2"
)

func main() { core.Main() }
