// Command pdsim is the engine binary: every property profile is registered here.
//
// math/rand's global source must stay seedable (rand.Seed is a no-op by default for go >= 1.24 main modules): the
// simulator seeds it per run, and the deterministic runtime makes the unseeded source a constant.
//
//go:debug randseednop=0
package main

import (
	"pdsim/engine/core"
	_ "pdsim/engine/e1"
	_ "pdsim/engine/e2"
)

func main() { core.Main() }
