package main

import (
	"context"
	"fmt"
	"os"
	"strconv"
	"time"

	"github.com/pingcap/kvproto/pkg/pdpb"

	"pdsim/harness"
	"pdsim/simrt"
)

func main() {
	seed, _ := strconv.Atoi(os.Args[1])
	var ids []uint64
	res := simrt.Run(simrt.Config{Seed: uint64(seed), MaxTime: 2 * time.Minute, MaxSteps: 500000, Trace: len(os.Args) > 2}, func(s *simrt.Sim) {
		s.SetSchedKnobs(0.3, 0.1, 0.0, time.Second)
		w := harness.NewWorld(s, 3)
		for _, n := range w.Nodes {
			if err := n.Start(); err != nil {
				s.Event("start error %v", err)
				s.Stop("start-failed")
				return
			}
		}
		for i := 0; i < 200 && w.Leader() == nil; i++ {
			simrt.Sleep(100 * time.Millisecond)
		}
		l := w.Leader()
		if l == nil {
			s.Stop("no-leader")
			return
		}
		s.Event("leader is %s at %v", l.Name, s.Elapsed())
		cli := w.Net.Dial(l.ClientURL)
		for i := 0; i < 5; i++ {
			ctx, cancel := context.WithTimeout(context.Background(), 3*time.Second)
			r, err := cli.AllocID(ctx, &pdpb.AllocIDRequest{Header: &pdpb.RequestHeader{ClusterId: l.Srv.ClusterID()}})
			cancel()
			s.Event("alloc -> %v %v", r.GetId(), err)
			ids = append(ids, r.GetId())
		}
		s.Stop("done")
	})
	fmt.Printf("seed=%d steps=%d simtime=%v digest=%x stop=%s ids=%v stats=%v leaked=%d anoms=%d\n", seed, res.Steps, res.SimTime, res.Digest, res.StopReason, ids, res.Stats, res.Leaked, len(res.Anomalies))
	for _, a := range res.Anomalies {
		fmt.Println(a)
	}
	for _, l := range res.Trace {
		fmt.Println(l)
	}
}
