package main

import (
	"fmt"
	"os"
	"strconv"
	"time"

	"pdsim/simrt"
	ssync "pdsim/simrt/ssync"
)

func main() {
	seed, _ := strconv.Atoi(os.Args[1])
	var mu ssync.Mutex
	counter := 0
	lost := 0
	res := simrt.Run(simrt.Config{Seed: uint64(seed), MaxTime: time.Minute, Trace: len(os.Args) > 2}, func(s *simrt.Sim) {
		s.SetSchedKnobs(0.5, 0.5, 0.05, time.Second)
		m := map[string]int{"a": 1, "b": 2, "c": 3, "d": 4}
		order := ""
		for k := range m {
			order += k
		}
		s.Event("maporder %s", order)
		done := 0
		for i := 0; i < 4; i++ {
			i := i
			simrt.Go(func() {
				for j := 0; j < 5; j++ {
					mu.Lock()
					v := counter
					mu.Unlock()
					simrt.Sleep(time.Duration(i+1) * time.Millisecond)
					mu.Lock()
					if counter != v {
						lost++
					}
					counter = v + 1
					mu.Unlock()
				}
				done++
			})
		}
		for done < 4 {
			simrt.Sleep(10 * time.Millisecond)
		}
		s.Event("counter=%d lost=%d", counter, lost)
		s.Stop("done")
	})
	fmt.Printf("seed=%d steps=%d simtime=%v digest=%x counter=%d lost=%d stop=%s tape=%d leaked=%d\n", seed, res.Steps, res.SimTime, res.Digest, counter, lost, res.StopReason, len(res.Tape), res.Leaked)
	for _, l := range res.Trace {
		fmt.Println(l)
	}
}
