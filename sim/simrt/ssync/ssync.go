// Package sync (import path pdsim/simrt/ssync) replaces the standard sync package
// in the rewritten PD sources: Mutex and RWMutex park durably and hand control to
// the simulator's scheduler; everything else is the real thing.
package sync

import (
	"sync"

	"pdsim/simrt"
)

type (
	WaitGroup = sync.WaitGroup
	Once      = sync.Once
	Map       = sync.Map
	Pool      = sync.Pool
	Cond      = sync.Cond
	Locker    = sync.Locker
)

// NewCond is sync.NewCond.
func NewCond(l Locker) *Cond { return sync.NewCond(l) }

// Mutex is a simulator-aware mutual exclusion lock. The zero value is unlocked.
type Mutex struct {
	l simrt.Lock
}

func (m *Mutex) Lock()         { m.l.Acquire(true) }
func (m *Mutex) Unlock()       { m.l.Release(true) }
func (m *Mutex) TryLock() bool { return m.l.TryAcquire(true) }

// RWMutex is a simulator-aware reader/writer lock.
type RWMutex struct {
	l simrt.Lock
}

func (m *RWMutex) Lock()          { m.l.Acquire(true) }
func (m *RWMutex) Unlock()        { m.l.Release(true) }
func (m *RWMutex) RLock()         { m.l.Acquire(false) }
func (m *RWMutex) RUnlock()       { m.l.Release(false) }
func (m *RWMutex) TryLock() bool  { return m.l.TryAcquire(true) }
func (m *RWMutex) TryRLock() bool { return m.l.TryAcquire(false) }

// RLocker returns a Locker that uses RLock/RUnlock.
func (m *RWMutex) RLocker() Locker { return (*rlocker)(m) }

type rlocker RWMutex

func (r *rlocker) Lock()   { (*RWMutex)(r).RLock() }
func (r *rlocker) Unlock() { (*RWMutex)(r).RUnlock() }
