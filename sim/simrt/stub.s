// empty: allows body-less linknamed declarations in this package
