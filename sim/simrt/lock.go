package simrt

import "sync"

// lockMu guards every Lock's state. It is a real mutex held for a few
// instructions, never across a blocking operation.
var lockMu sync.Mutex

// Lock is the state of a simulator-aware (RW)mutex. Zero value: free.
type Lock struct {
	writer  bool
	readers int
	waiters []chan struct{}
}

func (l *Lock) try(write bool) bool {
	if write {
		if l.writer || l.readers > 0 {
			return false
		}
		l.writer = true
		return true
	}
	if l.writer {
		return false
	}
	l.readers++
	return true
}

// TryAcquire never blocks.
func (l *Lock) TryAcquire(write bool) bool {
	lockMu.Lock()
	ok := l.try(write)
	lockMu.Unlock()
	return ok
}

// Acquire takes the lock, parking the calling task durably while it is held by
// another task. Before taking a free lock a task may yield (knob pLock): that is
// what exposes check-then-act windows between two critical sections.
func (l *Lock) Acquire(write bool) {
	s := cur
	if s != nil && s.pLock > 0 {
		if t := s.current(); t != nil && !t.dead {
			if s.Chance("lock.yield", s.pLock) {
				s.park(t, "lock")
			}
		}
	}
	for {
		lockMu.Lock()
		if l.try(write) {
			lockMu.Unlock()
			return
		}
		if s != nil && s.inMon && runtimeGoid() == s.schedG {
			lockMu.Unlock()
			panic(MonitorBusy{})
		}
		ch := make(chan struct{})
		l.waiters = append(l.waiters, ch)
		lockMu.Unlock()
		if s != nil {
			s.Count("lock.contended")
		}
		<-ch
		Resume()
	}
}

// Release frees the lock and makes every waiter runnable (the scheduler decides who wins).
func (l *Lock) Release(write bool) {
	lockMu.Lock()
	if write {
		if !l.writer {
			lockMu.Unlock()
			panic("simrt: unlock of unlocked mutex")
		}
		l.writer = false
	} else {
		if l.readers <= 0 {
			lockMu.Unlock()
			panic("simrt: runlock of unlocked rwmutex")
		}
		l.readers--
	}
	ws := l.waiters
	l.waiters = nil
	lockMu.Unlock()
	for _, ch := range ws {
		close(ch)
	}
}
