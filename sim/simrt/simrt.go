// Package simrt is the deterministic simulation runtime: a synctest bubble, a
// seeded scheduler that releases one task at a time, the choice tape, node wall
// clocks and the event log. It imports no PD package.
package simrt

import (
	"fmt"
	"hash/fnv"
	"math/rand"
	"os"
	"runtime"
	"sort"
	"strings"
	"sync"
	"time"
	_ "unsafe"
)

//go:linkname runtimeGoid
func runtimeGoid() uint64

//go:linkname bubbleRun
func bubbleRun(f func())

//go:linkname bubbleWait
func bubbleWait()

// Goid returns the current goroutine id.
func Goid() uint64 { return runtimeGoid() }

// Task is a goroutine owned by the scheduler.
type Task struct {
	ID    int
	Node  int // -1: harness/client
	Label string
	wake  chan struct{}
	// guarded by Sim.mu
	runnable bool
	dead     bool
	done     bool
	parkedAt string
	frozenTo time.Time // not schedulable before this instant (slow thread)
	Data     any       // harness data
}

// Config configures one run.
type Config struct {
	Seed     uint64
	Tape     []uint32 // non-nil: replay mode
	MaxSteps int
	MaxTime  time.Duration // simulated
	Trace    bool
	// knobs (drawn by the harness from the tape in its prologue, then set here)
}

type anomaly struct {
	Kind  string
	Node  int
	Task  string
	Msg   string
	Stack string
}

// Sim is one simulated execution.
type Sim struct {
	cfg Config

	mu       sync.Mutex // real mutex; held for short non-blocking sections only
	tasks    map[uint64]*Task
	all      []*Task
	runnable []*Task
	nextID   int
	notify   chan struct{}
	stop     bool
	stopWhy  string
	crashed  map[int]bool // node -> crashed

	rng     splitmix
	tape    []uint32
	tapePos int
	replay  bool

	Step       int
	cur        *Task // task released last
	start      time.Time
	wallOff    map[int]time.Duration
	pSwitch    float64
	pLock      float64
	pStall     float64
	maxStall   time.Duration
	pFreeze    float64
	nodeFrozen map[int]time.Time // node -> none of its tasks is scheduled before this instant (process pause)
	maxFreeze  time.Duration

	digest     uint64
	trace      []string
	traceOn    bool
	Stats      map[string]int
	Anoms      []anomaly
	monitors   []func()
	inMon      bool
	schedG     uint64
	ilHash     uint64 // interleaving hash (task label, seam label) sequence
	OnPanic    func(node int, msg string)
	Overlap    int
	endElapsed time.Duration
	// OnTeardown hooks run on the scheduler goroutine before tasks are reaped (cancel root contexts here).
	OnTeardown []func()
}

var cur *Sim

// Cur returns the running simulation (nil outside a run).
func Cur() *Sim { return cur }

type splitmix struct{ s uint64 }

func (r *splitmix) next() uint64 {
	r.s += 0x9e3779b97f4a7c15
	z := r.s
	z = (z ^ (z >> 30)) * 0xbf58476d1ce4e5b9
	z = (z ^ (z >> 27)) * 0x94d049bb133111eb
	return z ^ (z >> 31)
}

// ---------------------------------------------------------------- choice tape

func (s *Sim) draw() uint32 {
	// caller holds no lock; only the running task or the scheduler draws, never both
	if s.replay {
		var v uint32
		if s.tapePos < len(s.tape) {
			v = s.tape[s.tapePos]
		}
		s.tapePos++
		return v
	}
	v := uint32(s.rng.next() >> 32)
	s.tape = append(s.tape, v)
	s.tapePos++
	return v
}

// Choose returns a value in [0,n); 0 is the benign choice.
func (s *Sim) Choose(n int, label string) int {
	if n <= 1 {
		return 0
	}
	v := int(s.draw() % uint32(n))
	return v
}

// Chance fires with probability p; a zero tape entry never fires.
func (s *Sim) Chance(label string, p float64) bool {
	if p <= 0 {
		return false
	}
	v := s.draw()
	if p >= 1 {
		return v != 0 || !s.replay
	}
	thr := uint32(float64(1<<32-1) * (1 - p))
	return v > thr
}

// Range draws an integer in [lo,hi] (lo is benign).
func (s *Sim) Range(lo, hi int, label string) int {
	if hi <= lo {
		return lo
	}
	return lo + s.Choose(hi-lo+1, label)
}

// Tape returns the recorded tape.
func (s *Sim) Tape() []uint32 { return append([]uint32(nil), s.tape...) }

// TapePos returns how many choices have been consumed.
func (s *Sim) TapePos() int { return s.tapePos }

// ---------------------------------------------------------------- logging

func (s *Sim) logf(format string, a ...any) {
	msg := fmt.Sprintf(format, a...)
	h := fnv.New64a()
	var b [8]byte
	for i := 0; i < 8; i++ {
		b[i] = byte(s.digest >> (8 * i))
	}
	h.Write(b[:])
	h.Write([]byte(msg))
	s.digest = h.Sum64()
	if s.traceOn {
		s.trace = append(s.trace, fmt.Sprintf("%6d %9.3fs %s", s.Step, s.Elapsed().Seconds(), msg))
	}
}

// Event appends to the event log (and its digest). Never draws, never reads a real clock.
func (s *Sim) Event(format string, a ...any) {
	s.mu.Lock()
	s.logf(format, a...)
	s.mu.Unlock()
}

// Digest returns the event-log digest.
func (s *Sim) Digest() uint64 { return s.digest }

// Trace returns the human-readable event log (when tracing).
func (s *Sim) Trace() []string { return s.trace }

// Count increments a statistic.
func (s *Sim) Count(name string) {
	s.mu.Lock()
	s.Stats[name]++
	s.mu.Unlock()
}

// CountN adds to a statistic.
func (s *Sim) CountN(name string, n int) {
	s.mu.Lock()
	s.Stats[name] += n
	s.mu.Unlock()
}

// Elapsed returns simulated time since the start of the run.
func (s *Sim) Elapsed() time.Duration { return time.Since(s.start) }

// InterleavingHash identifies the sequence of (task, seam) pairs of the run.
func (s *Sim) InterleavingHash() uint64 { return s.ilHash }

// ---------------------------------------------------------------- tasks

func (s *Sim) current() *Task {
	g := runtimeGoid()
	s.mu.Lock()
	t := s.tasks[g]
	s.mu.Unlock()
	return t
}

// CurrentTask returns the calling task, or nil.
func CurrentTask() *Task {
	s := cur
	if s == nil {
		return nil
	}
	return s.current()
}

// CurrentNode returns the node of the calling task (-1 if none).
func CurrentNode() int {
	if t := CurrentTask(); t != nil {
		return t.Node
	}
	return -1
}

func (s *Sim) poke() {
	select {
	case s.notify <- struct{}{}:
	default:
	}
}

// park registers the calling task as runnable and blocks until the scheduler releases it.
func (s *Sim) park(t *Task, label string) {
	// a killed task also waits for the scheduler: its deferred functions must not run in
	// parallel with the task that is being executed (they could touch timers or draw choices)
	s.mu.Lock()
	t.runnable = true
	t.parkedAt = label
	s.runnable = append(s.runnable, t)
	s.mu.Unlock()
	s.poke()
	<-t.wake
	if t.dead {
		runtime.Goexit()
	}
}

// Resume is inserted by the rewriter after every operation that may have blocked
// outside the simulator's knowledge. No-op for goroutines that are not tasks.
func Resume() {
	s := cur
	if s == nil {
		return
	}
	if t := s.current(); t != nil {
		s.park(t, "resume")
	}
}

// Yield is an explicit scheduling point with a label.
func Yield(label string) {
	s := cur
	if s == nil {
		return
	}
	if t := s.current(); t != nil {
		s.park(t, label)
	}
}

// Go starts fn as a task on the caller's node (plain goroutine outside a simulation).
func Go(fn func()) {
	s := cur
	if s == nil {
		go fn()
		return
	}
	node := -1
	label := ""
	if p := s.current(); p != nil {
		node = p.Node
	} else if runtimeGoid() != s.schedG {
		// spawned by a non-task goroutine (library goroutine): keep it outside
		go fn()
		return
	}
	if s.traceOn {
		if _, file, line, ok := runtime.Caller(1); ok {
			if i := strings.LastIndex(file, "/"); i >= 0 {
				file = file[i+1:]
			}
			label = fmt.Sprintf("%s:%d", file, line)
		}
	}
	s.Spawn(node, label, fn)
}

// Spawn starts fn as a task on the given node.
func (s *Sim) Spawn(node int, label string, fn func()) *Task {
	s.mu.Lock()
	s.nextID++
	t := &Task{ID: s.nextID, Node: node, Label: label, wake: make(chan struct{}, 1)}
	if s.crashed[node] {
		t.dead = true
	}
	s.all = append(s.all, t)
	s.mu.Unlock()
	ready := make(chan struct{})
	go func() {
		g := runtimeGoid()
		s.mu.Lock()
		s.tasks[g] = t
		s.mu.Unlock()
		defer func() {
			if r := recover(); r != nil {
				buf := make([]byte, 16<<10)
				buf = buf[:runtime.Stack(buf, false)]
				s.mu.Lock()
				s.Anoms = append(s.Anoms, anomaly{Kind: "panic", Node: t.Node, Task: t.Label, Msg: fmt.Sprint(r), Stack: string(buf)})
				s.logf("PANIC node=%d task=%d %v", t.Node, t.ID, r)
				cb := s.OnPanic
				s.mu.Unlock()
				if cb != nil {
					cb(t.Node, fmt.Sprint(r))
				}
			}
			s.mu.Lock()
			t.done = true
			delete(s.tasks, g)
			s.mu.Unlock()
			s.poke()
		}()
		close(ready)
		s.park(t, "start")
		fn()
	}()
	<-ready
	return t
}

// KillNode marks every task of the node dead; they never run PD code again
// (parked ones are released only to exit).
func (s *Sim) KillNode(node int) {
	s.mu.Lock()
	s.crashed[node] = true
	for _, t := range s.all {
		if t.Node == node && !t.done {
			t.dead = true
		}
	}
	s.logf("KILL node=%d", node)
	s.mu.Unlock()
}

// FreezeNode pauses every task of a node for d of simulated time (a stopped process: GC pause, VM migration,
// SIGSTOP): none of them is scheduled, timers that fire meanwhile are served afterwards.
func (s *Sim) FreezeNode(node int, d time.Duration) {
	s.mu.Lock()
	if s.nodeFrozen == nil {
		s.nodeFrozen = map[int]time.Time{}
	}
	s.nodeFrozen[node] = time.Now().Add(d)
	s.Stats["fault.node-freeze"]++
	s.logf("FREEZE node=%d %v", node, d)
	s.mu.Unlock()
}

// ReviveNode allows new tasks on the node again (restart).
func (s *Sim) ReviveNode(node int) {
	s.mu.Lock()
	delete(s.crashed, node)
	s.mu.Unlock()
}

// IsDead reports whether the calling task has been killed.
func IsDead() bool {
	t := CurrentTask()
	if t == nil {
		return false
	}
	s := cur
	s.mu.Lock()
	d := t.dead
	s.mu.Unlock()
	return d
}

// ExitIfDead terminates the calling task if its node crashed.
func ExitIfDead() {
	if IsDead() {
		runtime.Goexit()
	}
}

// Sleep sleeps in simulated time and hands control back to the scheduler.
func Sleep(d time.Duration) {
	time.Sleep(d)
	Resume()
}

// ---------------------------------------------------------------- wall clock

// WallNow is the wall clock of the calling node: bubble time + node offset.
func WallNow() time.Time {
	s := cur
	now := time.Now()
	if s == nil {
		return now
	}
	t := s.current()
	if t == nil {
		return now
	}
	s.mu.Lock()
	off := s.wallOff[t.Node]
	s.mu.Unlock()
	if off == 0 {
		return now
	}
	// strip the monotonic reading: a jumped wall clock must not be undone by Sub()
	return now.Add(off).Round(0)
}

// SetWallOffset sets a node's wall-clock offset.
func (s *Sim) SetWallOffset(node int, off time.Duration) {
	s.mu.Lock()
	s.wallOff[node] = off
	s.logf("WALL node=%d off=%v", node, off)
	s.mu.Unlock()
}

// WallOffset returns a node's wall-clock offset.
func (s *Sim) WallOffset(node int) time.Duration {
	s.mu.Lock()
	defer s.mu.Unlock()
	return s.wallOff[node]
}

// ---------------------------------------------------------------- scheduler

// SetSchedKnobs sets the scheduling knobs of the run.
func (s *Sim) SetSchedKnobs(pSwitch, pLock, pStall float64, maxStall time.Duration) {
	s.pSwitch, s.pLock, s.pStall, s.maxStall = pSwitch, pLock, pStall, maxStall
}

// SetFreezeKnobs enables per-task stalls: with probability p per scheduler step one runnable
// task is frozen for up to max of simulated time (a descheduled thread).
func (s *Sim) SetFreezeKnobs(p float64, max time.Duration) { s.pFreeze, s.maxFreeze = p, max }

// AddMonitor registers an invariant evaluated by the scheduler after every step,
// while every task is parked.
func (s *Sim) AddMonitor(f func()) { s.monitors = append(s.monitors, f) }

// Stop ends the run.
func (s *Sim) Stop(why string) {
	s.mu.Lock()
	if !s.stop {
		s.stop = true
		s.stopWhy = why
	}
	s.mu.Unlock()
	s.poke()
}

// StopReason tells why the run ended.
func (s *Sim) StopReason() string { return s.stopWhy }

// MonitorBusy is panicked by sim locks taken from a monitor while held by a task.
type MonitorBusy struct{}

func (s *Sim) runMonitors() {
	if len(s.monitors) == 0 {
		return
	}
	s.inMon = true
	for _, m := range s.monitors {
		func() {
			defer func() {
				if r := recover(); r != nil {
					if _, ok := r.(MonitorBusy); ok {
						s.Stats["monitor.deferred"]++
						return
					}
					panic(r)
				}
			}()
			m()
		}()
	}
	s.inMon = false
}

func (s *Sim) loop() {
	for {
		bubbleWait()
		// every goroutine is durably blocked now: drop a stale wake-up token so that the number of
		// scheduler iterations (and of timers it creates) does not depend on poke timing
		select {
		case <-s.notify:
		default:
		}
		s.runMonitors()
		s.mu.Lock()
		if s.stop {
			s.mu.Unlock()
			return
		}
		if s.Step >= s.cfg.MaxSteps {
			s.stop, s.stopWhy = true, "step-budget"
			s.mu.Unlock()
			return
		}
		el := time.Since(s.start)
		if el >= s.cfg.MaxTime {
			s.stop, s.stopWhy = true, "time-budget"
			s.mu.Unlock()
			return
		}
		// candidates: runnable live tasks; dead ones are released at once to exit
		var cands []*Task
		var deads []*Task
		for _, t := range s.runnable {
			if t.dead {
				deads = append(deads, t)
			} else {
				cands = append(cands, t)
			}
		}
		if len(deads) > 0 {
			// release dead tasks one at a time (their deferred functions must not run in parallel)
			sort.Slice(deads, func(i, j int) bool { return deads[i].ID < deads[j].ID })
			d := deads[0]
			for i, r := range s.runnable {
				if r == d {
					s.runnable = append(s.runnable[:i], s.runnable[i+1:]...)
					break
				}
			}
			d.runnable = false
			s.mu.Unlock()
			d.wake <- struct{}{}
			continue
		}
		if len(cands) == 0 {
			live := 0
			for _, t := range s.all {
				if !t.done && !t.dead {
					live++
				}
			}
			s.mu.Unlock()
			if live == 0 {
				s.stop, s.stopWhy = true, "no-tasks"
				return
			}
			tm := time.NewTimer(s.cfg.MaxTime - el)
			select {
			case <-s.notify:
				tm.Stop()
			case <-tm.C:
			}
			continue
		}
		sort.Slice(cands, func(i, j int) bool { return cands[i].ID < cands[j].ID })
		s.mu.Unlock()

		// per-task freeze: a runnable task is not scheduled for a while
		if s.pFreeze > 0 && s.Chance("freeze", s.pFreeze) {
			t := cands[s.Choose(len(cands), "freeze.task")]
			d := time.Duration(1+s.Choose(1000, "freeze.d")) * s.maxFreeze / 1000
			t.frozenTo = time.Now().Add(d)
			s.Stats["fault.task-freeze"]++
			s.mu.Lock()
			s.logf("FREEZE t%d %v", t.ID, d)
			s.mu.Unlock()
		}
		now := time.Now()
		var thawed []*Task
		var nextThaw time.Time
		for _, t := range cands {
			until := t.frozenTo
			if nf := s.nodeFrozen[t.Node]; nf.After(until) && !t.dead {
				until = nf
			}
			if until.After(now) {
				if nextThaw.IsZero() || until.Before(nextThaw) {
					nextThaw = until
				}
				continue
			}
			thawed = append(thawed, t)
		}
		if len(thawed) == 0 {
			// every runnable task is frozen: let time pass until the first thaws (or something else wakes)
			tm := time.NewTimer(nextThaw.Sub(now))
			select {
			case <-s.notify:
				tm.Stop()
			case <-tm.C:
			}
			continue
		}
		cands = thawed

		// stall: let simulated time pass while runnable tasks stay parked (slow node / GC pause)
		if s.pStall > 0 && s.Chance("stall", s.pStall) {
			d := time.Duration(1+s.Choose(1000, "stall.d")) * s.maxStall / 1000
			s.Stats["fault.stall"]++
			s.mu.Lock()
			s.logf("STALL %v", d)
			s.mu.Unlock()
			time.Sleep(d)
			continue
		}
		// pick: the benign choice continues the task that ran last
		pick := 0
		curIdx := -1
		for i, t := range cands {
			if t == s.cur {
				curIdx = i
			}
		}
		if len(cands) > 1 {
			if curIdx >= 0 && !s.Chance("switch", s.pSwitch) {
				pick = curIdx
			} else {
				pick = s.Choose(len(cands), "task")
			}
		}
		t := cands[pick]
		s.mu.Lock()
		for i, r := range s.runnable {
			if r == t {
				s.runnable = append(s.runnable[:i], s.runnable[i+1:]...)
				break
			}
		}
		t.runnable = false
		s.Step++
		s.cur = t
		s.logf("RUN t%d@%d %s #%d c%d", t.ID, t.Node, t.parkedAt, s.tapePos, len(cands))
		if t.parkedAt == "start" && s.traceOn && len(s.trace) > 0 {
			// the task label (spawn site) is shown in the trace only; it is not part of the digest
			s.trace[len(s.trace)-1] += " [" + t.Label + "]"
		}
		s.ilHash = s.ilHash*1099511628211 ^ uint64(t.ID)<<8 ^ uint64(len(t.parkedAt))
		for i := 0; i < len(t.parkedAt) && i < 24; i++ {
			s.ilHash = s.ilHash*31 + uint64(t.parkedAt[i])
		}
		s.mu.Unlock()
		t.wake <- struct{}{}
	}
}

// Result summarises a run.
type Result struct {
	Steps      int
	SimTime    time.Duration
	Digest     uint64
	ILHash     uint64
	Tape       []uint32
	StopReason string
	Stats      map[string]int
	Anomalies  []string
	Trace      []string
	Leaked     int
}

// Run executes body as task 0 (node -1) inside a fresh bubble and returns when the
// run stops. It must not be called concurrently.
func Run(cfg Config, body func(s *Sim)) (res Result) {
	if cfg.MaxSteps == 0 {
		cfg.MaxSteps = 200000
	}
	if cfg.MaxTime == 0 {
		cfg.MaxTime = 10 * time.Minute
	}
	s := &Sim{cfg: cfg, tasks: map[uint64]*Task{}, notify: make(chan struct{}, 1), crashed: map[int]bool{},
		wallOff: map[int]time.Duration{}, Stats: map[string]int{}, traceOn: cfg.Trace,
		pSwitch: 0.2, pLock: 0.0}
	s.rng.s = cfg.Seed*0x9e3779b97f4a7c15 + 0x1234567
	if cfg.Tape != nil {
		s.replay = true
		s.tape = cfg.Tape
	}
	rand.Seed(int64(cfg.Seed) ^ 0x5eed)
	func() {
		defer func() {
			if r := recover(); r != nil {
				msg := fmt.Sprint(r)
				if strings.Contains(msg, "blocked goroutines remain") || strings.Contains(msg, "all goroutines in bubble are blocked") {
					res.Leaked = 1
					return
				}
				panic(r)
			}
		}()
		bubbleRun(func() {
			s.notify = make(chan struct{}, 1)
			s.start = time.Now()
			s.schedG = runtimeGoid()
			cur = s
			s.Spawn(-1, "main", func() { body(s) })
			s.loop()
			s.endElapsed = time.Since(s.start)
			if os.Getenv("VERIF_STACKS") != "" {
				buf := make([]byte, 4<<20)
				buf = buf[:runtime.Stack(buf, true)]
				os.Stderr.Write(buf)
			}
			for _, f := range s.OnTeardown {
				f()
			}
			// tear down: every task dies; parked ones are released to run their defers
			s.mu.Lock()
			for _, t := range s.all {
				t.dead = true
			}
			s.mu.Unlock()
			// release every task: runnable ones exit at once; sleepers and ticker loops are flushed out by
			// letting simulated time run ahead (otherwise they would stay blocked for ever and pile up across runs)
			jumps := 0
			for i := 0; i < 20000; i++ {
				bubbleWait()
				s.mu.Lock()
				rs := s.runnable
				if len(rs) > 0 {
					sort.Slice(rs, func(i, j int) bool { return rs[i].ID < rs[j].ID })
					t := rs[0]
					s.runnable = rs[1:]
					t.runnable = false
					s.mu.Unlock()
					t.wake <- struct{}{}
					continue
				}
				alive := 0
				for _, t := range s.all {
					if !t.done {
						alive++
					}
				}
				s.mu.Unlock()
				if alive == 0 || jumps >= 12 {
					break
				}
				jumps++
				time.Sleep(time.Duration(jumps*jumps) * time.Minute)
			}
			cur = nil
		})
	}()
	cur = nil
	res.Steps = s.Step
	res.SimTime = s.lastElapsed()
	res.Digest = s.digest
	res.ILHash = s.ilHash
	res.Tape = s.tape
	if s.replay {
		res.Tape = s.tape
	}
	res.StopReason = s.stopWhy
	res.Stats = s.Stats
	for _, a := range s.Anoms {
		res.Anomalies = append(res.Anomalies, fmt.Sprintf("%s node=%d task=%s: %s\n%s", a.Kind, a.Node, a.Task, a.Msg, a.Stack))
	}
	res.Trace = s.trace
	return res
}

func (s *Sim) lastElapsed() time.Duration { return s.endElapsed }
