// Package harness glues PD servers to the simulator: nodes, start/crash/restart,
// clients. It is the only layer (with workload/oracle/engines) that imports PD.
package harness

import (
	"context"
	"fmt"
	"io"
	"net/http"
	"os"
	"strings"
	"time"

	"github.com/pingcap/log"
	"github.com/tikv/pd/server"
	"github.com/tikv/pd/server/config"
	"go.etcd.io/etcd/clientv3"
	"go.uber.org/zap"
	"go.uber.org/zap/zapcore"

	"pdsim/simdisk"
	"pdsim/simetcd"
	"pdsim/simnet"
	"pdsim/simrt"
)

// World is everything a run owns.
type World struct {
	Sim        *simrt.Sim
	Etcd       *simetcd.Cluster
	Net        *simnet.Net
	Nodes      []*Node
	RootCtx    context.Context
	Cancel     context.CancelFunc
	HTTP       http.RoundTripper
	HTTPFaults HTTPFaults
}

// Node is one PD member slot.
type Node struct {
	StartedAt  time.Time // simulated time of the latest (re)start
	W          *World
	ID         int
	Name       string
	ClientURL  string
	PeerURL    string
	Labels     map[string]string
	LocalTSO   bool
	Srv        *server.Server
	Client     *clientv3.Client
	Ctx        context.Context
	Cancel     context.CancelFunc
	Up         bool
	Incarn     int
	CfgTweak   func(*config.Config)
	Encryption bool
	starting   bool
	// OnStarted runs on the booting task right after the server object exists (before its loops start)
	OnStarted func(n *Node)
}

func init() {
	if os.Getenv("VERIF_PDLOG") == "" {
		// Production PD logs at info level, and formatting some log fields has side effects (Operator.String()
		// calls CheckSuccess / CheckTimeout): keep the fields evaluated exactly as in production, but discard the output.
		lvl := zap.NewAtomicLevelAt(zapcore.InfoLevel)
		core := zapcore.NewCore(zapcore.NewJSONEncoder(zap.NewProductionEncoderConfig()), zapcore.AddSync(io.Discard), lvl)
		log.ReplaceGlobals(zap.New(core), &log.ZapProperties{Core: core, Level: lvl})
	}
}

// NewWorld creates the simulated etcd, network and n member slots (not started).
func NewWorld(s *simrt.Sim, n int) *World {
	ctx, cancel := context.WithCancel(context.Background())
	w := &World{Sim: s, RootCtx: ctx, Cancel: cancel}
	w.HTTP = &simTransport{w: w}
	w.HTTPFaults.Unreachable = map[int]bool{}
	simdisk.Reset()
	w.Etcd = simetcd.New(s)
	w.Net = simnet.New(s)
	for i := 0; i < n; i++ {
		nd := &Node{W: w, ID: i, Name: fmt.Sprintf("pd%d", i),
			ClientURL: fmt.Sprintf("http://pd%d:2379", i), PeerURL: fmt.Sprintf("http://pd%d:2380", i)}
		w.Nodes = append(w.Nodes, nd)
		w.Etcd.AddMember(i, nd.Name, nd.PeerURL, nd.ClientURL)
	}
	s.OnPanic = func(node int, msg string) {
		// an unrecovered panic kills the PD process; a supervisor restarts it
		if node < 0 || node >= len(w.Nodes) {
			return
		}
		nd := w.Nodes[node]
		s.Count("anomaly.pd-panic")
		s.Spawn(-1, "panic-supervisor", func() {
			if nd.Up {
				nd.Crash()
			}
			simrt.Sleep(time.Second)
			nd.Start()
		})
	}
	s.OnTeardown = append(s.OnTeardown, cancel, simdisk.CloseAll)
	return w
}

func (n *Node) config() (*config.Config, error) {
	cfg := config.NewConfig()
	args := []string{"--name", n.Name, "--data-dir", "/sim/" + n.Name, "--client-urls", n.ClientURL, "--peer-urls", n.PeerURL}
	if err := cfg.Parse(args); err != nil {
		return nil, err
	}
	if len(n.Labels) > 0 {
		cfg.Labels = n.Labels
	}
	cfg.EnableLocalTSO = n.LocalTSO
	if n.CfgTweak != nil {
		n.CfgTweak(cfg)
	}
	return cfg, nil
}

// Start boots the member: must be called from a task; the caller's task becomes
// a task of this node for the duration of start-up (so that a crash kills it).
func (n *Node) Start() error {
	n.StartedAt = time.Now()
	w := n.W
	if n.Up || n.starting {
		return nil
	}
	n.starting = true
	defer func() { n.starting = false }()
	w.Sim.ReviveNode(n.ID)
	done := make(chan error, 1)
	n.Incarn++
	n.Ctx, n.Cancel = context.WithCancel(w.RootCtx)
	ctx := n.Ctx
	w.Sim.Spawn(n.ID, "boot."+n.Name, func() {
		cfg, err := n.config()
		if err != nil {
			done <- err
			return
		}
		cl := w.Etcd.NewClient(ctx, n.ID)
		hc := &http.Client{Transport: w.HTTP}
		srv, err := server.NewSimServer(ctx, cfg, cl, simetcd.MemberID(n.ID), hc)
		if err != nil {
			done <- err
			return
		}
		n.Srv, n.Client = srv, cl
		if n.OnStarted != nil {
			n.OnStarted(n)
		}
		w.Net.Register(n.ClientURL, n.ID, ctx, srv)
		srv.SimStartLoops(n.Encryption)
		n.Up = true
		done <- nil
	})
	err := <-done
	simrt.Resume()
	w.Sim.Event("node %d start incarnation=%d err=%v", n.ID, n.Incarn, err)
	return err
}

// Crash stops the member at once: its tasks never run again, only etcd contents
// and its simulated disk survive.
func (n *Node) Crash() {
	w := n.W
	n.Up = false
	w.Net.Unregister(n.ClientURL)
	w.Sim.KillNode(n.ID)
	if n.Cancel != nil {
		n.Cancel()
	}
	simdisk.CrashNode(n.ID)
	n.Srv = nil
	w.Sim.Count("fault.crash")
}

// Leader returns the node whose server currently believes it is the serving leader (nil if none).
func (w *World) Leader() *Node {
	for _, n := range w.Nodes {
		if n.Up && n.Srv != nil && n.Srv.SimMember().IsLeader() {
			return n
		}
	}
	return nil
}

// simTransport is the simulated HTTP transport between members (health checks,
// persist-file replication). It never touches the real network.
type simTransport struct {
	w *World
	// FailPersist: fault: persist-file requests to these nodes fail
}

// HTTPFaults configures the simulated HTTP transport.
type HTTPFaults struct {
	PFail       float64
	Unreachable map[int]bool
}

func (t *simTransport) RoundTrip(req *http.Request) (*http.Response, error) {
	w := t.w
	simrt.Yield("http " + req.URL.Path)
	if err := req.Context().Err(); err != nil {
		return nil, err
	}
	host := req.URL.Host
	var target *Node
	for _, n := range w.Nodes {
		if strings.HasPrefix(n.ClientURL, "http://"+host) {
			target = n
		}
	}
	mk := func(code int, body string) *http.Response {
		return &http.Response{StatusCode: code, Status: http.StatusText(code), Body: io.NopCloser(strings.NewReader(body)), Header: http.Header{}, Request: req, ProtoMajor: 1, ProtoMinor: 1}
	}
	if target == nil || !target.Up || w.HTTPFaults.Unreachable[target.ID] {
		w.Sim.Count("http.unreachable")
		return nil, fmt.Errorf("simhttp: connect to %s: connection refused", host)
	}
	if w.HTTPFaults.PFail > 0 && w.Sim.Chance("http.fail", w.HTTPFaults.PFail) {
		w.Sim.Count("fault.http.fail")
		return nil, fmt.Errorf("simhttp: injected: connection reset")
	}
	p := req.URL.Path
	switch {
	case strings.HasSuffix(p, "/health"):
		return mk(200, "[]"), nil
	case strings.Contains(p, "/admin/persist-file/"):
		name := p[strings.LastIndex(p, "/")+1:]
		var data []byte
		if req.Body != nil {
			data, _ = io.ReadAll(req.Body)
		}
		simdisk.WriteFile(target.ID, name, data)
		w.Sim.Count("http.persist-file")
		return mk(200, ""), nil
	}
	return mk(404, ""), nil
}
