// Package simdisk gives every simulated node an in-memory disk: goleveldb runs
// for real on a per-node storage.Storage that survives a crash of the node
// (only what was written to the DB survives; PD's in-memory batches do not).
// It imports no PD package.
package simdisk

import (
	"errors"
	"sync"

	"github.com/syndtr/goleveldb/leveldb"
	"github.com/syndtr/goleveldb/leveldb/opt"
	"github.com/syndtr/goleveldb/leveldb/storage"

	"pdsim/simrt"
)

type disk struct {
	stor storage.Storage
	db   *leveldb.DB
}

var (
	mu    sync.Mutex
	disks = map[int]map[string]*disk{} // node -> path -> disk
	// FailOpen: fault: next Open on the node fails
	failOpen = map[int]bool{}
	files    = map[int]map[string][]byte{} // plain files per node (persist-file API)
)

// CloseAll closes every open DB (end of a run, inside the run's bubble).
func CloseAll() {
	mu.Lock()
	for _, m := range disks {
		for _, d := range m {
			if d.db != nil {
				d.db.Close()
				d.db = nil
			}
		}
	}
	mu.Unlock()
}

// Reset forgets every disk (start of a run). Objects of an earlier bubble are never touched.
func Reset() {
	WriteFault = nil
	mu.Lock()
	disks = map[int]map[string]*disk{}
	failOpen = map[int]bool{}
	files = map[int]map[string][]byte{}
	mu.Unlock()
}

// Open replaces leveldb.OpenFile in server/kv (rewrite rule R4).
func Open(path string, o *opt.Options) (*leveldb.DB, error) {
	node := simrt.CurrentNode()
	mu.Lock()
	defer mu.Unlock()
	if failOpen[node] {
		delete(failOpen, node)
		return nil, errors.New("simdisk: injected: open failed")
	}
	m := disks[node]
	if m == nil {
		m = map[string]*disk{}
		disks[node] = m
	}
	d := m[path]
	if d == nil {
		d = &disk{stor: storage.NewMemStorage()}
		m[path] = d
	}
	if d.db != nil {
		// previous incarnation (crashed node): release it
		d.db.Close()
		d.db = nil
	}
	db, err := leveldb.Open(d.stor, o)
	if err != nil {
		return nil, err
	}
	d.db = db
	return db, nil
}

// WriteFault, when set by a profile, decides whether a write of the leveldb-backed kv fails (disk full, I/O error).
// It is consulted by BeforeWrite on the writing task, after the scheduling point.
var WriteFault func(node int, op string) error

// BeforeWrite is inserted by rewrite rule R6 at the top of (*LeveldbKV).Save / Remove / SaveRegions: the write becomes
// a scheduling point (other tasks may run between the caller's preparation and the write reaching the disk) and may
// fail with an injected error before anything is written.
func BeforeWrite(op string) error {
	if simrt.CurrentTask() == nil {
		return nil
	}
	simrt.Yield("disk." + op)
	if f := WriteFault; f != nil {
		return f(simrt.CurrentNode(), op)
	}
	return nil
}

// CrashNode closes the DB handles of a crashed node so that a restart can reopen
// the same storage. Data already handed to leveldb survives.
func CrashNode(node int) {
	mu.Lock()
	defer mu.Unlock()
	for _, d := range disks[node] {
		if d.db != nil {
			d.db.Close()
			d.db = nil
		}
	}
}

// FailNextOpen arms an open failure.
func FailNextOpen(node int) {
	mu.Lock()
	failOpen[node] = true
	mu.Unlock()
}

// WriteFile stores a plain file on the node's disk.
func WriteFile(node int, name string, data []byte) {
	mu.Lock()
	if files[node] == nil {
		files[node] = map[string][]byte{}
	}
	files[node][name] = append([]byte(nil), data...)
	mu.Unlock()
}

// ReadFile reads a plain file from the node's disk.
func ReadFile(node int, name string) ([]byte, bool) {
	mu.Lock()
	defer mu.Unlock()
	b, ok := files[node][name]
	return b, ok
}
