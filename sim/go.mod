module pdsim

go 1.25

require (
	github.com/anishathalye/porcupine v1.3.0
	github.com/tikv/pd v0.0.0
)

replace github.com/tikv/pd => /repo
