module pdsim

go 1.25

require github.com/tikv/pd v0.0.0

replace github.com/tikv/pd => /repo
