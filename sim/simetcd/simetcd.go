// Package simetcd is an in-memory model of an etcd cluster as seen through
// clientv3: one linearizable MVCC store with revisions, leases, transactions and
// watches. Every call is a seam owned by the simulator's scheduler, with fault
// injection (delay, error before/after apply, partition, late lease expiry).
// It imports no PD package.
package simetcd

import (
	"bytes"
	"context"
	"fmt"
	"sort"
	"sync"
	"time"

	"go.etcd.io/etcd/clientv3"
	"go.etcd.io/etcd/etcdserver/api/v3rpc/rpctypes"
	pb "go.etcd.io/etcd/etcdserver/etcdserverpb"
	"go.etcd.io/etcd/mvcc/mvccpb"
	"google.golang.org/grpc"
	"google.golang.org/grpc/codes"
	"google.golang.org/grpc/status"

	"pdsim/simrt"
)

// KV is a stored key.
type KV struct {
	Key       string
	Value     []byte
	CreateRev int64
	ModRev    int64
	Version   int64
	Lease     int64
}

// Change is one key change of a commit.
type Change struct {
	Key  string
	Prev *KV // nil: did not exist
	Cur  *KV // nil: deleted
}

// Commit describes one applied write (one revision).
type Commit struct {
	Rev     int64
	Node    int    // issuing node (-2: etcd itself, e.g. lease expiry)
	Reason  string // put, delete, txn, lease-expire, lease-revoke
	Changes []Change
	Step    int
	// Unacked: the write was applied but its issuer is told it failed (unknown outcome)
	Unacked bool
}

// Faults configures the fault model; all probabilities are per request.
type Faults struct {
	Enabled    bool
	PErrBefore float64 // clean failure: not applied
	PErrAfter  float64 // unknown outcome: applied, error returned
	PDelay     float64
	MaxDelay   time.Duration
	LeaseLag   time.Duration // leases expire up to this much late, never early
	// MaxRangeBytes > 0: range responses larger than this fail with ResourceExhausted
	MaxRangeBytes int
	// OnlyWritesFail restricts error injection to writes
	OnlyWritesFail bool
	// BaseLatency is added to every request even when faults are disabled
	ReconnectMax time.Duration // calls that waited out a partition resume after a drawn delay up to this
	BaseLatency  time.Duration
}

type lease struct {
	id     int64
	ttl    int64
	expiry time.Time
	keys   map[string]bool
}

type watch struct {
	key, end string
	ch       chan clientv3.WatchResponse
	closed   bool
	node     int
}

type clientInfo struct {
	node int
	c    *clientv3.Client
}

// Member is an etcd member (one per PD member).
type Member struct {
	ID         uint64
	Name       string
	PeerURLs   []string
	ClientURLs []string
	Node       int
}

// Cluster is the simulated etcd cluster.
type Cluster struct {
	Sim *simrt.Sim
	mu  sync.Mutex // real; short sections only

	rev        int64
	compactRev int64
	kvs        map[string]*KV
	leases     map[int64]*lease
	nextLease  int64
	watches    []*watch
	history    []Commit
	clients    map[*clientv3.Client]*clientInfo
	members    []Member
	leaderNode int
	parted     map[int]bool
	healCh     chan struct{}
	kick       chan struct{}

	Faults   Faults
	OnCommit []func(c *Commit)
	// FailNext: deterministic single-shot fault plan: the n-th write (1-based, counted
	// from when it was armed) fails. mode: "before" or "after".
	failAt    int
	failMode  string
	writeSeen int
	// FailFilter restricts the fail plan / write counting to keys with this prefix
	FailKeyFilter func(key string) bool
	ClusterID     uint64
	curUnacked    bool
	reqSeq        int
}

// New creates a cluster and starts its lease-expiry task.
func New(s *simrt.Sim) *Cluster {
	c := &Cluster{Sim: s, rev: 1, kvs: map[string]*KV{}, leases: map[int64]*lease{}, nextLease: 7000,
		clients: map[*clientv3.Client]*clientInfo{}, parted: map[int]bool{}, healCh: make(chan struct{}),
		kick: make(chan struct{}, 1), ClusterID: 0xe7cd}
	s.Spawn(-2, "etcd.lease-expirer", c.expirer)
	registryMu.Lock()
	current = c
	registryMu.Unlock()
	return c
}

var (
	registryMu sync.Mutex
	current    *Cluster
)

// AddMember registers a member.
func (c *Cluster) AddMember(node int, name, peerURL, clientURL string) uint64 {
	id := uint64(0x1000 + node)
	c.mu.Lock()
	c.members = append(c.members, Member{ID: id, Name: name, PeerURLs: []string{peerURL}, ClientURLs: []string{clientURL}, Node: node})
	if len(c.members) == 1 {
		c.leaderNode = node
	}
	c.mu.Unlock()
	return id
}

// SetEtcdLeader moves the etcd leader to the member on node (-1: no leader).
func (c *Cluster) SetEtcdLeader(node int) {
	c.mu.Lock()
	c.leaderNode = node
	c.mu.Unlock()
	c.Sim.Event("etcd leader -> node %d", node)
}

// EtcdLeaderNode returns the node hosting the etcd leader.
func (c *Cluster) EtcdLeaderNode() int {
	c.mu.Lock()
	defer c.mu.Unlock()
	return c.leaderNode
}

// NewClient returns a *clientv3.Client for the node backed by this cluster.
func (c *Cluster) NewClient(ctx context.Context, node int) *clientv3.Client {
	cl := clientv3.NewCtxClient(ctx)
	c.mu.Lock()
	c.clients[cl] = &clientInfo{node: node, c: cl}
	c.mu.Unlock()
	cl.KV = NewKV(cl)
	cl.Lease = NewLease(cl)
	cl.Watcher = NewWatcher(cl)
	cl.Cluster = &clusterAPI{c: c, node: node}
	return cl
}

func lookup(cl *clientv3.Client) (*Cluster, int) {
	registryMu.Lock()
	c := current
	registryMu.Unlock()
	if c == nil {
		panic("simetcd: no cluster")
	}
	c.mu.Lock()
	ci := c.clients[cl]
	c.mu.Unlock()
	if ci == nil {
		panic("simetcd: unknown client")
	}
	return c, ci.node
}

// EtcdLeaderOf answers member.GetEtcdLeader (rewrite rule R4).
func EtcdLeaderOf(cl *clientv3.Client) uint64 {
	c, _ := lookup(cl)
	c.mu.Lock()
	defer c.mu.Unlock()
	if c.leaderNode < 0 {
		return 0
	}
	return uint64(0x1000 + c.leaderNode)
}

// MemberID returns the etcd member id used for a node.
func MemberID(node int) uint64 { return uint64(0x1000 + node) }

// ---------------------------------------------------------------- partitions

// SetPartitioned cuts a node off from etcd (requests hang until their deadline) or heals it.
func (c *Cluster) SetPartitioned(node int, v bool) {
	c.mu.Lock()
	if v {
		c.parted[node] = true
	} else {
		delete(c.parted, node)
		close(c.healCh)
		c.healCh = make(chan struct{})
	}
	c.mu.Unlock()
	c.Sim.Event("etcd partition node=%d %v", node, v)
}

func (c *Cluster) isParted(node int) (bool, chan struct{}) {
	c.mu.Lock()
	defer c.mu.Unlock()
	return c.parted[node], c.healCh
}

// ---------------------------------------------------------------- the request seam

var errUnavailable = status.Error(codes.Unavailable, "simetcd: injected: etcdserver unavailable")
var errTimeout = status.Error(codes.DeadlineExceeded, "simetcd: injected: request timed out (outcome unknown)")

// FailNthWrite arms a deterministic fault: the n-th write request from now on
// (counting only writes accepted by FailKeyFilter) fails; mode "before" (not
// applied) or "after" (applied, error returned). n <= 0 disarms.
func (c *Cluster) FailNthWrite(n int, mode string) {
	c.mu.Lock()
	c.failAt, c.failMode, c.writeSeen = n, mode, 0
	c.mu.Unlock()
}

// WritesSeen returns the number of (filtered) write requests since FailNthWrite was armed.
func (c *Cluster) WritesSeen() int {
	c.mu.Lock()
	defer c.mu.Unlock()
	return c.writeSeen
}

// request runs apply as one atomic step between two scheduling points.
func (c *Cluster) request(ctx context.Context, node int, label string, write bool, firstKey string, apply func() error) error {
	simrt.ExitIfDead()
	if err := ctx.Err(); err != nil {
		return err
	}
	for {
		parted, heal := c.isParted(node)
		if !parted {
			break
		}
		c.Sim.Count("fault.etcd.partition-blocked")
		select {
		case <-ctx.Done():
			simrt.Resume()
			return status.FromContextError(ctx.Err()).Err()
		case <-heal:
			simrt.Resume()
			// the connection comes back after a backoff of its own for every pending call
			if c.Faults.Enabled && c.Faults.ReconnectMax > 0 {
				time.Sleep(time.Duration(c.Sim.Choose(int(c.Faults.ReconnectMax/time.Millisecond)+1, "etcd.reconnect")) * time.Millisecond)
				simrt.Resume()
				if err := ctx.Err(); err != nil {
					return status.FromContextError(err).Err()
				}
			}
		}
	}
	f := c.Faults
	s := c.Sim
	if f.BaseLatency > 0 {
		time.Sleep(f.BaseLatency)
		simrt.Resume()
	}
	if f.Enabled && f.PDelay > 0 && s.Chance("etcd.delay", f.PDelay) {
		d := time.Duration(1+s.Choose(100, "etcd.delay.d")) * f.MaxDelay / 100
		s.Count("fault.etcd.delay")
		tm := time.NewTimer(d)
		select {
		case <-ctx.Done():
			tm.Stop()
			simrt.Resume()
			return status.FromContextError(ctx.Err()).Err()
		case <-tm.C:
			simrt.Resume()
		}
	}
	simrt.Yield("etcd.req " + label)
	if err := ctx.Err(); err != nil {
		return status.FromContextError(err).Err()
	}
	injectable := f.Enabled && (write || !f.OnlyWritesFail)
	// deterministic plan
	planned := ""
	if write && (c.FailKeyFilter == nil || c.FailKeyFilter(firstKey)) {
		c.mu.Lock()
		c.writeSeen++
		if c.failAt > 0 && c.writeSeen == c.failAt {
			planned = c.failMode
		}
		c.mu.Unlock()
	}
	if planned == "before" || (injectable && f.PErrBefore > 0 && s.Chance("etcd.err.before", f.PErrBefore)) {
		s.Count("fault.etcd.err-before")
		s.Event("etcd %s n%d FAIL-BEFORE", label, node)
		simrt.Yield("etcd.resp " + label)
		return errUnavailable
	}
	c.reqSeq++
	failAfter := planned == "after" || (injectable && write && f.PErrAfter > 0 && s.Chance("etcd.err.after", f.PErrAfter))
	c.mu.Lock()
	c.curUnacked = failAfter
	c.mu.Unlock()
	err := apply()
	c.mu.Lock()
	c.curUnacked = false
	c.mu.Unlock()
	if err != nil {
		simrt.Yield("etcd.resp " + label)
		return err
	}
	if failAfter {
		s.Count("fault.etcd.err-after")
		s.Event("etcd %s n%d FAIL-AFTER(applied)", label, node)
		simrt.Yield("etcd.resp " + label)
		return errTimeout
	}
	simrt.Yield("etcd.resp " + label)
	return nil
}

// ---------------------------------------------------------------- store

func (c *Cluster) header() *pb.ResponseHeader {
	return &pb.ResponseHeader{ClusterId: c.ClusterID, MemberId: MemberID(c.leaderNode), Revision: c.rev, RaftTerm: 2}
}

func toPB(kv *KV) *mvccpb.KeyValue {
	return &mvccpb.KeyValue{Key: []byte(kv.Key), Value: append([]byte(nil), kv.Value...), CreateRevision: kv.CreateRev, ModRevision: kv.ModRev, Version: kv.Version, Lease: kv.Lease}
}

func cloneKV(kv *KV) *KV {
	if kv == nil {
		return nil
	}
	k := *kv
	k.Value = append([]byte(nil), kv.Value...)
	return &k
}

func (c *Cluster) keysInRange(key, end []byte) []string {
	var out []string
	if len(end) == 0 {
		if _, ok := c.kvs[string(key)]; ok {
			out = append(out, string(key))
		}
		return out
	}
	for k := range c.kvs {
		if bytes.Compare([]byte(k), key) >= 0 && (bytes.Equal(end, []byte{0}) || bytes.Compare([]byte(k), end) < 0) {
			out = append(out, k)
		}
	}
	sort.Strings(out)
	return out
}

type txnState struct {
	changes []Change
	rev     int64
}

func (c *Cluster) applyPut(ts *txnState, r *pb.PutRequest) (*pb.PutResponse, error) {
	if r.Lease != 0 {
		if _, ok := c.leases[r.Lease]; !ok {
			return nil, rpctypes.ErrGRPCLeaseNotFound
		}
	}
	key := string(r.Key)
	prev := c.kvs[key]
	cur := &KV{Key: key, Value: append([]byte(nil), r.Value...), ModRev: ts.rev, Lease: r.Lease}
	if prev != nil {
		cur.CreateRev = prev.CreateRev
		cur.Version = prev.Version + 1
		if r.IgnoreValue {
			cur.Value = append([]byte(nil), prev.Value...)
		}
		if r.IgnoreLease {
			cur.Lease = prev.Lease
		}
		if prev.Lease != 0 && prev.Lease != cur.Lease {
			if l := c.leases[prev.Lease]; l != nil {
				delete(l.keys, key)
			}
		}
	} else {
		cur.CreateRev = ts.rev
		cur.Version = 1
	}
	if cur.Lease != 0 {
		c.leases[cur.Lease].keys[key] = true
	}
	c.kvs[key] = cur
	ts.changes = append(ts.changes, Change{Key: key, Prev: cloneKV(prev), Cur: cloneKV(cur)})
	resp := &pb.PutResponse{Header: c.header()}
	if r.PrevKv && prev != nil {
		resp.PrevKv = toPB(prev)
	}
	return resp, nil
}

func (c *Cluster) applyDelete(ts *txnState, r *pb.DeleteRangeRequest) *pb.DeleteRangeResponse {
	keys := c.keysInRange(r.Key, r.RangeEnd)
	resp := &pb.DeleteRangeResponse{Header: c.header()}
	for _, k := range keys {
		prev := c.kvs[k]
		delete(c.kvs, k)
		if prev.Lease != 0 {
			if l := c.leases[prev.Lease]; l != nil {
				delete(l.keys, k)
			}
		}
		ts.changes = append(ts.changes, Change{Key: k, Prev: cloneKV(prev)})
		resp.Deleted++
		if r.PrevKv {
			resp.PrevKvs = append(resp.PrevKvs, toPB(prev))
		}
	}
	return resp
}

func (c *Cluster) applyRange(r *pb.RangeRequest) (*pb.RangeResponse, error) {
	if r.Revision > 0 && r.Revision < c.compactRev {
		return nil, rpctypes.ErrGRPCCompacted
	}
	keys := c.keysInRange(r.Key, r.RangeEnd)
	var kvs []*KV
	for _, k := range keys {
		kv := c.kvs[k]
		if r.MinModRevision > 0 && kv.ModRev < r.MinModRevision || r.MaxModRevision > 0 && kv.ModRev > r.MaxModRevision ||
			r.MinCreateRevision > 0 && kv.CreateRev < r.MinCreateRevision || r.MaxCreateRevision > 0 && kv.CreateRev > r.MaxCreateRevision {
			continue
		}
		kvs = append(kvs, kv)
	}
	if r.SortOrder != pb.RangeRequest_NONE {
		less := func(a, b *KV) bool {
			switch r.SortTarget {
			case pb.RangeRequest_VERSION:
				return a.Version < b.Version
			case pb.RangeRequest_CREATE:
				return a.CreateRev < b.CreateRev
			case pb.RangeRequest_MOD:
				return a.ModRev < b.ModRev
			case pb.RangeRequest_VALUE:
				return bytes.Compare(a.Value, b.Value) < 0
			}
			return a.Key < b.Key
		}
		sort.SliceStable(kvs, func(i, j int) bool {
			if r.SortOrder == pb.RangeRequest_DESCEND {
				return less(kvs[j], kvs[i])
			}
			return less(kvs[i], kvs[j])
		})
	}
	resp := &pb.RangeResponse{Header: c.header(), Count: int64(len(kvs))}
	if r.CountOnly {
		return resp, nil
	}
	if r.Limit > 0 && int64(len(kvs)) > r.Limit {
		kvs = kvs[:r.Limit]
		resp.More = true
	}
	size := 0
	for _, kv := range kvs {
		p := toPB(kv)
		if r.KeysOnly {
			p.Value = nil
		}
		size += len(p.Key) + len(p.Value) + 32
		resp.Kvs = append(resp.Kvs, p)
	}
	if m := c.Faults.MaxRangeBytes; m > 0 && size > m {
		c.Sim.Count("fault.etcd.range-too-large")
		return nil, status.Errorf(codes.ResourceExhausted, "grpc: received message larger than max (%d vs. %d)", size, m)
	}
	return resp, nil
}

func (c *Cluster) evalCompare(cmp *pb.Compare) bool {
	keys := []string{string(cmp.Key)}
	if len(cmp.RangeEnd) > 0 {
		keys = c.keysInRange(cmp.Key, cmp.RangeEnd)
		if len(keys) == 0 {
			return true
		}
	}
	for _, k := range keys {
		kv := c.kvs[k]
		var res int
		switch cmp.Target {
		case pb.Compare_VALUE:
			if kv == nil {
				// etcd: comparing the value of a missing key always fails
				return false
			}
			res = bytes.Compare(kv.Value, cmp.GetValue())
		case pb.Compare_CREATE:
			var v int64
			if kv != nil {
				v = kv.CreateRev
			}
			res = cmpInt(v, cmp.GetCreateRevision())
		case pb.Compare_MOD:
			var v int64
			if kv != nil {
				v = kv.ModRev
			}
			res = cmpInt(v, cmp.GetModRevision())
		case pb.Compare_VERSION:
			var v int64
			if kv != nil {
				v = kv.Version
			}
			res = cmpInt(v, cmp.GetVersion())
		case pb.Compare_LEASE:
			var v int64
			if kv != nil {
				v = kv.Lease
			}
			res = cmpInt(v, cmp.GetLease())
		}
		ok := false
		switch cmp.Result {
		case pb.Compare_EQUAL:
			ok = res == 0
		case pb.Compare_NOT_EQUAL:
			ok = res != 0
		case pb.Compare_GREATER:
			ok = res > 0
		case pb.Compare_LESS:
			ok = res < 0
		}
		if !ok {
			return false
		}
	}
	return true
}

func cmpInt(a, b int64) int {
	switch {
	case a < b:
		return -1
	case a > b:
		return 1
	}
	return 0
}

func txnIsWrite(r *pb.TxnRequest) bool {
	for _, ops := range [][]*pb.RequestOp{r.Success, r.Failure} {
		for _, op := range ops {
			switch v := op.Request.(type) {
			case *pb.RequestOp_RequestPut, *pb.RequestOp_RequestDeleteRange:
				return true
			case *pb.RequestOp_RequestTxn:
				if txnIsWrite(v.RequestTxn) {
					return true
				}
			}
		}
	}
	return false
}

func txnFirstKey(r *pb.TxnRequest) string {
	for _, ops := range [][]*pb.RequestOp{r.Success, r.Failure} {
		for _, op := range ops {
			switch v := op.Request.(type) {
			case *pb.RequestOp_RequestPut:
				return string(v.RequestPut.Key)
			case *pb.RequestOp_RequestDeleteRange:
				return string(v.RequestDeleteRange.Key)
			}
		}
	}
	return ""
}

func (c *Cluster) applyTxn(ts *txnState, r *pb.TxnRequest) (*pb.TxnResponse, error) {
	ok := true
	for _, cmp := range r.Compare {
		if !c.evalCompare(cmp) {
			ok = false
			break
		}
	}
	ops := r.Success
	if !ok {
		ops = r.Failure
	}
	resp := &pb.TxnResponse{Succeeded: ok}
	for _, op := range ops {
		switch v := op.Request.(type) {
		case *pb.RequestOp_RequestRange:
			rr, err := c.applyRange(v.RequestRange)
			if err != nil {
				return nil, err
			}
			resp.Responses = append(resp.Responses, &pb.ResponseOp{Response: &pb.ResponseOp_ResponseRange{ResponseRange: rr}})
		case *pb.RequestOp_RequestPut:
			pr, err := c.applyPut(ts, v.RequestPut)
			if err != nil {
				return nil, err
			}
			resp.Responses = append(resp.Responses, &pb.ResponseOp{Response: &pb.ResponseOp_ResponsePut{ResponsePut: pr}})
		case *pb.RequestOp_RequestDeleteRange:
			dr := c.applyDelete(ts, v.RequestDeleteRange)
			resp.Responses = append(resp.Responses, &pb.ResponseOp{Response: &pb.ResponseOp_ResponseDeleteRange{ResponseDeleteRange: dr}})
		case *pb.RequestOp_RequestTxn:
			tr, err := c.applyTxn(ts, v.RequestTxn)
			if err != nil {
				return nil, err
			}
			resp.Responses = append(resp.Responses, &pb.ResponseOp{Response: &pb.ResponseOp_ResponseTxn{ResponseTxn: tr}})
		}
	}
	return resp, nil
}

// validateTxnLeases makes a txn atomic with respect to lease-not-found errors.
func (c *Cluster) validateTxn(r *pb.TxnRequest) error {
	for _, ops := range [][]*pb.RequestOp{r.Success, r.Failure} {
		for _, op := range ops {
			switch v := op.Request.(type) {
			case *pb.RequestOp_RequestPut:
				if l := v.RequestPut.Lease; l != 0 {
					if _, ok := c.leases[l]; !ok {
						return rpctypes.ErrGRPCLeaseNotFound
					}
				}
			case *pb.RequestOp_RequestTxn:
				if err := c.validateTxn(v.RequestTxn); err != nil {
					return err
				}
			}
		}
	}
	return nil
}

// commit finishes a write: bumps the revision, records history, notifies watchers and hooks.
// Caller holds c.mu.
func (c *Cluster) commit(ts *txnState, node int, reason string) {
	if len(ts.changes) == 0 {
		return
	}
	c.rev = ts.rev
	cm := Commit{Rev: ts.rev, Node: node, Reason: reason, Changes: ts.changes, Step: c.Sim.Step, Unacked: c.curUnacked}
	c.history = append(c.history, cm)
	if len(c.history) > 4096 {
		c.compactRev = c.history[len(c.history)-2048].Rev
		c.history = append([]Commit(nil), c.history[len(c.history)-2048:]...)
	}
	for _, w := range c.watches {
		c.deliver(w, &cm)
	}
	hooks := c.OnCommit
	c.mu.Unlock()
	for _, h := range hooks {
		h(&cm)
	}
	c.mu.Lock()
}

func (c *Cluster) begin() *txnState { return &txnState{rev: c.rev + 1} }

func inRange(key, k, end string) bool {
	if end == "" {
		return key == k
	}
	return key >= k && (end == "\x00" || key < end)
}

func (c *Cluster) deliver(w *watch, cm *Commit) {
	if w.closed {
		return
	}
	var evs []*clientv3.Event
	for _, ch := range cm.Changes {
		if !inRange(ch.Key, w.key, w.end) {
			continue
		}
		ev := &clientv3.Event{}
		if ch.Cur != nil {
			ev.Type = mvccpb.PUT
			ev.Kv = toPB(ch.Cur)
		} else {
			ev.Type = mvccpb.DELETE
			ev.Kv = &mvccpb.KeyValue{Key: []byte(ch.Key), ModRevision: cm.Rev}
		}
		if ch.Prev != nil {
			ev.PrevKv = toPB(ch.Prev)
		}
		evs = append(evs, ev)
	}
	if len(evs) == 0 {
		return
	}
	resp := clientv3.WatchResponse{Header: pb.ResponseHeader{ClusterId: c.ClusterID, Revision: cm.Rev}, Events: evs}
	select {
	case w.ch <- resp:
	default:
		// slow watcher: cancel it
		w.closed = true
		close(w.ch)
	}
}

// ---------------------------------------------------------------- direct access for oracles

// Get returns a stored key (nil if absent). For oracles / harness; not a seam.
func (c *Cluster) Get(key string) *KV {
	c.mu.Lock()
	defer c.mu.Unlock()
	return cloneKV(c.kvs[key])
}

// Snapshot returns all keys with the prefix, sorted.
func (c *Cluster) Snapshot(prefix string) []*KV {
	c.mu.Lock()
	defer c.mu.Unlock()
	var out []*KV
	for k, v := range c.kvs {
		if len(k) >= len(prefix) && k[:len(prefix)] == prefix {
			out = append(out, cloneKV(v))
		}
	}
	sort.Slice(out, func(i, j int) bool { return out[i].Key < out[j].Key })
	return out
}

// Rev returns the current revision.
func (c *Cluster) Rev() int64 {
	c.mu.Lock()
	defer c.mu.Unlock()
	return c.rev
}

// PutDirect writes a key without going through a seam (harness set-up / fault injection).
func (c *Cluster) PutDirect(key string, val []byte) {
	c.mu.Lock()
	ts := c.begin()
	c.applyPut(ts, &pb.PutRequest{Key: []byte(key), Value: val})
	c.commit(ts, -2, "direct-put")
	c.mu.Unlock()
}

// DeleteDirect removes a key without going through a seam (fault: leader key deleted by an operator).
func (c *Cluster) DeleteDirect(key string) bool {
	c.mu.Lock()
	defer c.mu.Unlock()
	ts := c.begin()
	r := c.applyDelete(ts, &pb.DeleteRangeRequest{Key: []byte(key)})
	c.commit(ts, -2, "direct-delete")
	return r.Deleted > 0
}

// Digest is a cheap fingerprint of the store content under a prefix.
func (c *Cluster) DigestOf(prefix string) string {
	var b bytes.Buffer
	for _, kv := range c.Snapshot(prefix) {
		fmt.Fprintf(&b, "%s=%x;", kv.Key, kv.Value)
	}
	return b.String()
}

// ---------------------------------------------------------------- pb.KVClient

type kvClient struct {
	c    *Cluster
	node int
}

// NewKV replaces clientv3.NewKV (rewrite rule R4).
func NewKV(cl *clientv3.Client) clientv3.KV {
	c, node := lookup(cl)
	return clientv3.NewKVFromKVClient(&kvClient{c: c, node: node}, cl)
}

func (k *kvClient) Range(ctx context.Context, in *pb.RangeRequest, _ ...grpc.CallOption) (resp *pb.RangeResponse, err error) {
	err = k.c.request(ctx, k.node, "range "+string(in.Key), false, "", func() error {
		k.c.mu.Lock()
		defer k.c.mu.Unlock()
		var e error
		resp, e = k.c.applyRange(in)
		return e
	})
	if err != nil {
		return nil, err
	}
	return resp, nil
}

func (k *kvClient) Put(ctx context.Context, in *pb.PutRequest, _ ...grpc.CallOption) (resp *pb.PutResponse, err error) {
	err = k.c.request(ctx, k.node, "put "+string(in.Key), true, string(in.Key), func() error {
		k.c.mu.Lock()
		defer k.c.mu.Unlock()
		ts := k.c.begin()
		var e error
		resp, e = k.c.applyPut(ts, in)
		if e != nil {
			return e
		}
		k.c.commit(ts, k.node, "put")
		resp.Header = k.c.header()
		return nil
	})
	if err != nil {
		return nil, err
	}
	return resp, nil
}

func (k *kvClient) DeleteRange(ctx context.Context, in *pb.DeleteRangeRequest, _ ...grpc.CallOption) (resp *pb.DeleteRangeResponse, err error) {
	err = k.c.request(ctx, k.node, "delete "+string(in.Key), true, string(in.Key), func() error {
		k.c.mu.Lock()
		defer k.c.mu.Unlock()
		ts := k.c.begin()
		resp = k.c.applyDelete(ts, in)
		k.c.commit(ts, k.node, "delete")
		resp.Header = k.c.header()
		return nil
	})
	if err != nil {
		return nil, err
	}
	return resp, nil
}

func (k *kvClient) Txn(ctx context.Context, in *pb.TxnRequest, _ ...grpc.CallOption) (resp *pb.TxnResponse, err error) {
	write := txnIsWrite(in)
	label := "txn"
	if fk := txnFirstKey(in); fk != "" {
		label = "txn " + fk
	} else if len(in.Compare) > 0 {
		label = "txn ? " + string(in.Compare[0].Key)
	}
	err = k.c.request(ctx, k.node, label, write, txnFirstKey(in), func() error {
		k.c.mu.Lock()
		defer k.c.mu.Unlock()
		if e := k.c.validateTxn(in); e != nil {
			return e
		}
		ts := k.c.begin()
		var e error
		resp, e = k.c.applyTxn(ts, in)
		if e != nil {
			return e
		}
		k.c.commit(ts, k.node, "txn")
		resp.Header = k.c.header()
		return nil
	})
	if err != nil {
		return nil, err
	}
	return resp, nil
}

func (k *kvClient) Compact(ctx context.Context, in *pb.CompactionRequest, _ ...grpc.CallOption) (*pb.CompactionResponse, error) {
	err := k.c.request(ctx, k.node, "compact", false, "", func() error {
		k.c.mu.Lock()
		defer k.c.mu.Unlock()
		if in.Revision > k.c.compactRev {
			k.c.compactRev = in.Revision
		}
		return nil
	})
	if err != nil {
		return nil, err
	}
	return &pb.CompactionResponse{Header: k.c.header()}, nil
}

// CompactTo compacts history (fault: watchers from older revisions get a compaction error).
func (c *Cluster) CompactTo(rev int64) {
	c.mu.Lock()
	if rev > c.compactRev {
		c.compactRev = rev
	}
	c.mu.Unlock()
}

// ---------------------------------------------------------------- leases

type leaseAPI struct {
	c    *Cluster
	node int
}

// NewLease replaces clientv3.NewLease (rewrite rule R4).
func NewLease(cl *clientv3.Client) clientv3.Lease {
	c, node := lookup(cl)
	return &leaseAPI{c: c, node: node}
}

func (l *leaseAPI) Grant(ctx context.Context, ttl int64) (*clientv3.LeaseGrantResponse, error) {
	var resp *clientv3.LeaseGrantResponse
	err := l.c.request(ctx, l.node, "lease.grant", false, "", func() error {
		c := l.c
		c.mu.Lock()
		defer c.mu.Unlock()
		c.nextLease++
		id := c.nextLease
		c.leases[id] = &lease{id: id, ttl: ttl, expiry: time.Now().Add(time.Duration(ttl) * time.Second), keys: map[string]bool{}}
		resp = &clientv3.LeaseGrantResponse{ResponseHeader: c.header(), ID: clientv3.LeaseID(id), TTL: ttl}
		c.pokeExpirer()
		return nil
	})
	if err != nil {
		return nil, rpcErr(ctx, err)
	}
	l.c.Sim.Event("lease grant n%d id=%d ttl=%d", l.node, resp.ID, ttl)
	return resp, nil
}

func rpcErr(ctx context.Context, err error) error {
	if ev, ok := status.FromError(err); ok {
		if (ev.Code() == codes.DeadlineExceeded || ev.Code() == codes.Canceled) && ctx.Err() != nil {
			return ctx.Err()
		}
	}
	return rpctypes.Error(err)
}

func (c *Cluster) pokeExpirer() {
	select {
	case c.kick <- struct{}{}:
	default:
	}
}

func (l *leaseAPI) Revoke(ctx context.Context, id clientv3.LeaseID) (*clientv3.LeaseRevokeResponse, error) {
	var resp *clientv3.LeaseRevokeResponse
	err := l.c.request(ctx, l.node, "lease.revoke", true, "", func() error {
		c := l.c
		c.mu.Lock()
		defer c.mu.Unlock()
		if _, ok := c.leases[int64(id)]; !ok {
			return rpctypes.ErrGRPCLeaseNotFound
		}
		c.dropLease(int64(id), l.node, "lease-revoke")
		resp = &clientv3.LeaseRevokeResponse{Header: c.header()}
		return nil
	})
	if err != nil {
		return nil, rpcErr(ctx, err)
	}
	return resp, nil
}

// dropLease removes a lease and its keys. Caller holds c.mu.
func (c *Cluster) dropLease(id int64, node int, reason string) {
	l := c.leases[id]
	if l == nil {
		return
	}
	delete(c.leases, id)
	var keys []string
	for k := range l.keys {
		keys = append(keys, k)
	}
	sort.Strings(keys)
	ts := c.begin()
	for _, k := range keys {
		c.applyDelete(ts, &pb.DeleteRangeRequest{Key: []byte(k)})
	}
	c.Sim.Event("lease %d dropped (%s) keys=%v", id, reason, keys)
	c.commit(ts, node, reason)
}

// RevokeLeaseOfKey is a fault: the lease that owns key is revoked by etcd.
func (c *Cluster) RevokeLeaseOfKey(key string) bool {
	c.mu.Lock()
	defer c.mu.Unlock()
	kv := c.kvs[key]
	if kv == nil || kv.Lease == 0 {
		return false
	}
	c.dropLease(kv.Lease, -2, "lease-revoke")
	return true
}

func (l *leaseAPI) TimeToLive(ctx context.Context, id clientv3.LeaseID, opts ...clientv3.LeaseOption) (*clientv3.LeaseTimeToLiveResponse, error) {
	var resp *clientv3.LeaseTimeToLiveResponse
	err := l.c.request(ctx, l.node, "lease.ttl", false, "", func() error {
		c := l.c
		c.mu.Lock()
		defer c.mu.Unlock()
		le := c.leases[int64(id)]
		if le == nil {
			resp = &clientv3.LeaseTimeToLiveResponse{ResponseHeader: c.header(), ID: id, TTL: -1}
			return nil
		}
		resp = &clientv3.LeaseTimeToLiveResponse{ResponseHeader: c.header(), ID: id, TTL: int64(time.Until(le.expiry) / time.Second), GrantedTTL: le.ttl}
		return nil
	})
	if err != nil {
		return nil, rpcErr(ctx, err)
	}
	return resp, nil
}

func (l *leaseAPI) Leases(ctx context.Context) (*clientv3.LeaseLeasesResponse, error) {
	return &clientv3.LeaseLeasesResponse{}, nil
}

func (l *leaseAPI) KeepAlive(ctx context.Context, id clientv3.LeaseID) (<-chan *clientv3.LeaseKeepAliveResponse, error) {
	return nil, fmt.Errorf("simetcd: streaming KeepAlive is not modelled (PD uses KeepAliveOnce)")
}

func (l *leaseAPI) KeepAliveOnce(ctx context.Context, id clientv3.LeaseID) (*clientv3.LeaseKeepAliveResponse, error) {
	var resp *clientv3.LeaseKeepAliveResponse
	err := l.c.request(ctx, l.node, "lease.keepalive", false, "", func() error {
		c := l.c
		c.mu.Lock()
		defer c.mu.Unlock()
		le := c.leases[int64(id)]
		if le == nil {
			return rpctypes.ErrGRPCLeaseNotFound
		}
		le.expiry = time.Now().Add(time.Duration(le.ttl) * time.Second)
		resp = &clientv3.LeaseKeepAliveResponse{ResponseHeader: c.header(), ID: id, TTL: le.ttl}
		return nil
	})
	if err != nil {
		return nil, rpcErr(ctx, err)
	}
	return resp, nil
}

func (l *leaseAPI) Close() error { return nil }

// expirer is the etcd-side lease expiry task.
func (c *Cluster) expirer() {
	for {
		c.mu.Lock()
		var next time.Time
		now := time.Now()
		var due []int64
		for id, l := range c.leases {
			// a lease lives at least its full TTL on the server: it expires strictly after, never at, the instant a
			// client that measured from its request start still considers it valid (real etcd checks every 500ms)
			exp := l.expiry.Add(c.Faults.LeaseLag).Add(time.Nanosecond)
			if !exp.After(now) {
				due = append(due, id)
			} else if next.IsZero() || exp.Before(next) {
				next = exp
			}
		}
		sort.Slice(due, func(i, j int) bool { return due[i] < due[j] })
		for _, id := range due {
			c.dropLease(id, -2, "lease-expire")
		}
		c.mu.Unlock()
		c.Sim.CountN("etcd.lease-expired", len(due))
		if len(due) > 0 {
			simrt.Yield("etcd.expirer")
			continue
		}
		var tmC <-chan time.Time
		var tm *time.Timer
		if !next.IsZero() {
			tm = time.NewTimer(time.Until(next))
			tmC = tm.C
		}
		select {
		case <-c.kick:
			simrt.Resume()
		case <-tmC:
			simrt.Resume()
		}
		if tm != nil {
			tm.Stop()
		}
	}
}

// LeaseOf returns the lease id attached to key (0 if none).
func (c *Cluster) LeaseOf(key string) int64 {
	c.mu.Lock()
	defer c.mu.Unlock()
	if kv := c.kvs[key]; kv != nil {
		return kv.Lease
	}
	return 0
}

// ---------------------------------------------------------------- watches

type watcherAPI struct {
	c    *Cluster
	node int
	mu   sync.Mutex
	ws   []*watch
}

// NewWatcher replaces clientv3.NewWatcher (rewrite rule R4).
func NewWatcher(cl *clientv3.Client) clientv3.Watcher {
	c, node := lookup(cl)
	return &watcherAPI{c: c, node: node}
}

func (w *watcherAPI) Watch(ctx context.Context, key string, opts ...clientv3.OpOption) clientv3.WatchChan {
	op := clientv3.OpGet(key, opts...)
	c := w.c
	wt := &watch{key: string(op.KeyBytes()), end: string(op.RangeBytes()), ch: make(chan clientv3.WatchResponse, 4096), node: w.node}
	simrt.Yield("etcd.watch " + key)
	c.mu.Lock()
	rev := op.Rev()
	if rev > 0 && rev < c.compactRev {
		wt.ch <- clientv3.WatchResponse{CompactRevision: c.compactRev, Canceled: true}
		wt.closed = true
		close(wt.ch)
		c.mu.Unlock()
		c.Sim.Count("etcd.watch-compacted")
		return wt.ch
	}
	if rev > 0 {
		for i := range c.history {
			if c.history[i].Rev >= rev {
				c.deliver(wt, &c.history[i])
			}
		}
	}
	c.watches = append(c.watches, wt)
	c.mu.Unlock()
	w.mu.Lock()
	w.ws = append(w.ws, wt)
	w.mu.Unlock()
	context.AfterFunc(ctx, func() { c.closeWatch(wt) })
	return wt.ch
}

func (c *Cluster) closeWatch(wt *watch) {
	c.mu.Lock()
	if !wt.closed {
		wt.closed = true
		close(wt.ch)
	}
	for i, x := range c.watches {
		if x == wt {
			c.watches = append(c.watches[:i], c.watches[i+1:]...)
			break
		}
	}
	c.mu.Unlock()
}

// CancelWatches is a fault: every watch of the node is cancelled by the server.
func (c *Cluster) CancelWatches(node int) int {
	c.mu.Lock()
	var ws []*watch
	for _, w := range c.watches {
		if w.node == node {
			ws = append(ws, w)
		}
	}
	c.mu.Unlock()
	for _, w := range ws {
		c.mu.Lock()
		if !w.closed {
			select {
			case w.ch <- clientv3.WatchResponse{Canceled: true}:
			default:
			}
		}
		c.mu.Unlock()
		c.closeWatch(w)
	}
	return len(ws)
}

func (w *watcherAPI) RequestProgress(ctx context.Context) error { return nil }

func (w *watcherAPI) Close() error {
	w.mu.Lock()
	ws := w.ws
	w.ws = nil
	w.mu.Unlock()
	for _, wt := range ws {
		w.c.closeWatch(wt)
	}
	return nil
}

// ---------------------------------------------------------------- membership

type clusterAPI struct {
	c    *Cluster
	node int
}

func (a *clusterAPI) MemberList(ctx context.Context) (*clientv3.MemberListResponse, error) {
	var resp *clientv3.MemberListResponse
	err := a.c.request(ctx, a.node, "member.list", false, "", func() error {
		a.c.mu.Lock()
		defer a.c.mu.Unlock()
		r := &pb.MemberListResponse{Header: a.c.header()}
		for _, m := range a.c.members {
			r.Members = append(r.Members, &pb.Member{ID: m.ID, Name: m.Name, PeerURLs: m.PeerURLs, ClientURLs: m.ClientURLs})
		}
		resp = (*clientv3.MemberListResponse)(r)
		return nil
	})
	if err != nil {
		return nil, rpcErr(ctx, err)
	}
	return resp, nil
}

func (a *clusterAPI) MemberAdd(ctx context.Context, peerAddrs []string) (*clientv3.MemberAddResponse, error) {
	return nil, fmt.Errorf("simetcd: MemberAdd not modelled")
}
func (a *clusterAPI) MemberAddAsLearner(ctx context.Context, peerAddrs []string) (*clientv3.MemberAddResponse, error) {
	return nil, fmt.Errorf("simetcd: MemberAddAsLearner not modelled")
}
func (a *clusterAPI) MemberRemove(ctx context.Context, id uint64) (*clientv3.MemberRemoveResponse, error) {
	return nil, fmt.Errorf("simetcd: MemberRemove not modelled")
}
func (a *clusterAPI) MemberUpdate(ctx context.Context, id uint64, peerAddrs []string) (*clientv3.MemberUpdateResponse, error) {
	return nil, fmt.Errorf("simetcd: MemberUpdate not modelled")
}
func (a *clusterAPI) MemberPromote(ctx context.Context, id uint64) (*clientv3.MemberPromoteResponse, error) {
	return nil, fmt.Errorf("simetcd: MemberPromote not modelled")
}
