// Package simnet is the simulated PD<->PD and client<->PD transport: a
// pdpb.PDClient whose calls run the target member's real handler method as a
// task on the target node, with delay, drop, partition and stream reset decided
// by the simulator. It imports no PD package.
package simnet

import (
	"context"
	"crypto/tls"
	"io"
	"strings"
	"sync"
	"time"

	"github.com/golang/protobuf/proto"
	"github.com/pingcap/kvproto/pkg/pdpb"
	"google.golang.org/grpc"
	"google.golang.org/grpc/codes"
	"google.golang.org/grpc/metadata"
	"google.golang.org/grpc/status"

	"pdsim/simrt"
)

// Faults of the network.
type Faults struct {
	Enabled  bool
	PDrop    float64 // request or response lost
	PDelay   float64
	MaxDelay time.Duration
}

type endpoint struct {
	node int
	srv  pdpb.PDServer
	ctx  context.Context
}

// Net is the simulated network.
type Net struct {
	Sim    *simrt.Sim
	mu     sync.Mutex
	eps    map[string]*endpoint // by host:port
	conns  map[*grpc.ClientConn]string
	cut    map[[2]int]bool // directed partition from -> to
	Faults Faults
	// OnCall observes every delivered unary call (oracles).
	OnCall func(from, to int, method string)
	// OnServerSend / OnClientRecv observe stream messages (server -> client direction) for oracles.
	OnServerSend func(method string, serverNode int, msg interface{})
	OnClientRecv func(method string, clientNode int, msg interface{})
}

var (
	regMu   sync.Mutex
	current *Net
)

// New creates the network of a run.
func New(s *simrt.Sim) *Net {
	n := &Net{Sim: s, eps: map[string]*endpoint{}, conns: map[*grpc.ClientConn]string{}, cut: map[[2]int]bool{}}
	regMu.Lock()
	current = n
	regMu.Unlock()
	return n
}

func cur() *Net {
	regMu.Lock()
	defer regMu.Unlock()
	if current == nil {
		panic("simnet: no network")
	}
	return current
}

func hostOf(addr string) string {
	addr = strings.TrimPrefix(addr, "http://")
	addr = strings.TrimPrefix(addr, "https://")
	return strings.TrimSuffix(addr, "/")
}

// Register makes srv reachable at addr; ctx is the node's root context (handlers die with it).
func (n *Net) Register(addr string, node int, ctx context.Context, srv pdpb.PDServer) {
	n.mu.Lock()
	n.eps[hostOf(addr)] = &endpoint{node: node, srv: srv, ctx: ctx}
	n.mu.Unlock()
}

// Unregister removes the endpoint (crash).
func (n *Net) Unregister(addr string) {
	n.mu.Lock()
	delete(n.eps, hostOf(addr))
	n.mu.Unlock()
}

// SetCut cuts (or heals) the directed link from -> to.
func (n *Net) SetCut(from, to int, v bool) {
	n.mu.Lock()
	if v {
		n.cut[[2]int{from, to}] = true
	} else {
		delete(n.cut, [2]int{from, to})
	}
	n.mu.Unlock()
	n.Sim.Event("net cut %d->%d %v", from, to, v)
}

// HealAll removes every cut.
func (n *Net) HealAll() {
	n.mu.Lock()
	n.cut = map[[2]int]bool{}
	n.mu.Unlock()
}

func (n *Net) isCut(from, to int) bool {
	n.mu.Lock()
	defer n.mu.Unlock()
	return n.cut[[2]int{from, to}]
}

// GetClientConn replaces grpcutil.GetClientConn (rewrite rule R4): it never dials.
func GetClientConn(ctx context.Context, addr string, tlsCfg *tls.Config, do ...grpc.DialOption) (*grpc.ClientConn, error) {
	n := cur()
	simrt.Yield("net.dial " + addr)
	if err := ctx.Err(); err != nil {
		return nil, err
	}
	cc := new(grpc.ClientConn)
	n.mu.Lock()
	n.conns[cc] = hostOf(addr)
	n.mu.Unlock()
	return cc, nil
}

// CloseConn replaces (*grpc.ClientConn).Close for simulated connections.
func CloseConn(cc *grpc.ClientConn) error {
	n := cur()
	n.mu.Lock()
	delete(n.conns, cc)
	n.mu.Unlock()
	return nil
}

type pdClient struct {
	n    *Net
	addr string
}

// NewPDClient replaces pdpb.NewPDClient (rewrite rule R4).
func NewPDClient(cc *grpc.ClientConn) pdpb.PDClient {
	n := cur()
	n.mu.Lock()
	addr := n.conns[cc]
	n.mu.Unlock()
	return &pdClient{n: n, addr: addr}
}

// Dial returns a client for addr (harness clients).
func (n *Net) Dial(addr string) pdpb.PDClient { return &pdClient{n: n, addr: hostOf(addr)} }

func (n *Net) lookup(addr string) *endpoint {
	n.mu.Lock()
	defer n.mu.Unlock()
	return n.eps[addr]
}

var errUnavail = status.Error(codes.Unavailable, "simnet: injected: transport is closing")

func (n *Net) delay(ctx context.Context, what string) error {
	f := n.Faults
	if f.Enabled && f.PDelay > 0 && n.Sim.Chance("net.delay", f.PDelay) {
		d := time.Duration(1+n.Sim.Choose(100, "net.delay.d")) * f.MaxDelay / 100
		n.Sim.Count("fault.net.delay")
		tm := time.NewTimer(d)
		select {
		case <-ctx.Done():
			tm.Stop()
			simrt.Resume()
			return status.FromContextError(ctx.Err()).Err()
		case <-tm.C:
			simrt.Resume()
		}
	}
	return nil
}

func handlerCtx(ep *endpoint, callerCtx context.Context) (context.Context, context.CancelFunc) {
	hctx, cancel := context.WithCancel(ep.ctx)
	if md, ok := metadata.FromOutgoingContext(callerCtx); ok {
		hctx = metadata.NewIncomingContext(hctx, md.Copy())
	}
	if dl, ok := callerCtx.Deadline(); ok {
		var c2 context.CancelFunc
		hctx, c2 = context.WithDeadline(hctx, dl)
		oc := cancel
		cancel = func() { c2(); oc() }
	}
	stop := context.AfterFunc(callerCtx, cancel)
	return hctx, func() { stop(); cancel() }
}

func waitCtx(ctx context.Context) error {
	<-ctx.Done()
	simrt.Resume()
	return status.FromContextError(ctx.Err()).Err()
}

func unary[Req, Resp any](c *pdClient, ctx context.Context, method string, in *Req, f func(pdpb.PDServer, context.Context, *Req) (*Resp, error)) (*Resp, error) {
	n := c.n
	simrt.ExitIfDead()
	from := simrt.CurrentNode()
	if err := ctx.Err(); err != nil {
		return nil, status.FromContextError(err).Err()
	}
	if err := n.delay(ctx, method); err != nil {
		return nil, err
	}
	simrt.Yield("net.call " + method)
	ep := n.lookup(c.addr)
	if ep == nil {
		n.Sim.Count("net.unreachable")
		return nil, errUnavail
	}
	if n.isCut(from, ep.node) {
		n.Sim.Count("fault.net.cut-blocked")
		if _, ok := ctx.Deadline(); ok {
			return nil, waitCtx(ctx)
		}
		return nil, errUnavail
	}
	if n.Faults.Enabled && n.Faults.PDrop > 0 && n.Sim.Chance("net.drop.req", n.Faults.PDrop) {
		n.Sim.Count("fault.net.drop-request")
		return nil, errUnavail
	}
	req := proto.Clone(any(in).(proto.Message))
	type result struct {
		resp *Resp
		err  error
	}
	resCh := make(chan result, 1)
	hctx, cancel := handlerCtx(ep, ctx)
	if n.OnCall != nil {
		n.OnCall(from, ep.node, method)
	}
	n.Sim.Spawn(ep.node, "rpc."+method, func() {
		defer cancel()
		r, err := f(ep.srv, hctx, any(req).(*Req))
		resCh <- result{r, err}
	})
	select {
	case r := <-resCh:
		simrt.Resume()
		if n.isCut(ep.node, from) || (n.Faults.Enabled && n.Faults.PDrop > 0 && n.Sim.Chance("net.drop.resp", n.Faults.PDrop)) {
			n.Sim.Count("fault.net.drop-response")
			return nil, errUnavail
		}
		if r.err != nil {
			return nil, r.err
		}
		return any(proto.Clone(any(r.resp).(proto.Message))).(*Resp), nil
	case <-ctx.Done():
		simrt.Resume()
		return nil, status.FromContextError(ctx.Err()).Err()
	case <-ep.ctx.Done():
		// the serving process died: the connection breaks
		simrt.Resume()
		n.Sim.Count("net.server-died")
		return nil, errUnavail
	}
}

// ---------------------------------------------------------------- streams

type streamCore[C2S, S2C any] struct {
	n        *Net
	method   string
	from, to int
	ctx      context.Context // client side context
	sctx     context.Context // server side context
	epctx    context.Context // serving node's root context
	c2s      chan *C2S
	s2c      chan *S2C
	mu       sync.Mutex
	sendDone bool  // client called CloseSend
	srvErr   error // handler result
	srvDone  chan struct{}
}

type clientStream[C2S, S2C any] struct {
	*streamCore[C2S, S2C]
}

type serverStream[C2S, S2C any] struct {
	*streamCore[C2S, S2C]
}

func openStream[C2S, S2C any](c *pdClient, ctx context.Context, method string, run func(pdpb.PDServer, *serverStream[C2S, S2C]) error) (*clientStream[C2S, S2C], error) {
	n := c.n
	simrt.ExitIfDead()
	from := simrt.CurrentNode()
	simrt.Yield("net.stream " + method)
	if err := ctx.Err(); err != nil {
		return nil, status.FromContextError(err).Err()
	}
	ep := n.lookup(c.addr)
	if ep == nil || n.isCut(from, ep.node) {
		n.Sim.Count("net.unreachable")
		return nil, errUnavail
	}
	hctx, cancel := handlerCtx(ep, ctx)
	core := &streamCore[C2S, S2C]{n: n, method: method, from: from, to: ep.node, ctx: ctx, sctx: hctx, epctx: ep.ctx,
		c2s: make(chan *C2S, 1024), s2c: make(chan *S2C, 1024), srvDone: make(chan struct{})}
	n.Sim.Spawn(ep.node, "stream."+method, func() {
		defer cancel()
		err := run(ep.srv, &serverStream[C2S, S2C]{core})
		core.mu.Lock()
		core.srvErr = err
		core.mu.Unlock()
		close(core.srvDone)
	})
	return &clientStream[C2S, S2C]{core}, nil
}

func clone[T any](m *T) *T { return any(proto.Clone(any(m).(proto.Message))).(*T) }

func (s *streamCore[C2S, S2C]) lossy() bool {
	f := s.n.Faults
	return f.Enabled && f.PDrop > 0 && s.n.Sim.Chance("net.drop.msg", f.PDrop)
}

// client side

func (s *clientStream[C2S, S2C]) Send(m *C2S) error {
	simrt.ExitIfDead()
	simrt.Yield("net.send " + s.method)
	if err := s.ctx.Err(); err != nil {
		return status.FromContextError(err).Err()
	}
	select {
	case <-s.srvDone:
		return io.EOF
	default:
	}
	if s.n.isCut(s.from, s.to) {
		s.n.Sim.Count("fault.net.cut-blocked")
		return nil // buffered by the transport and lost
	}
	select {
	case s.c2s <- clone(m):
	default:
		return status.Error(codes.ResourceExhausted, "simnet: stream buffer full")
	}
	return nil
}

func (s *clientStream[C2S, S2C]) Recv() (*S2C, error) {
	simrt.ExitIfDead()
	for {
		select {
		case m := <-s.s2c:
			simrt.Resume()
			if s.n.isCut(s.to, s.from) {
				s.n.Sim.Count("fault.net.cut-blocked")
				continue
			}
			if s.n.OnClientRecv != nil {
				s.n.OnClientRecv(s.method, s.from, m)
			}
			return m, nil
		case <-s.srvDone:
			simrt.Resume()
			// drain what was sent before the handler returned
			select {
			case m := <-s.s2c:
				return m, nil
			default:
			}
			s.mu.Lock()
			err := s.srvErr
			s.mu.Unlock()
			if err == nil {
				return nil, io.EOF
			}
			return nil, err
		case <-s.ctx.Done():
			simrt.Resume()
			return nil, status.FromContextError(s.ctx.Err()).Err()
		case <-s.epctx.Done():
			simrt.Resume()
			s.n.Sim.Count("net.server-died")
			return nil, errUnavail
		}
	}
}

func (s *clientStream[C2S, S2C]) CloseSend() error {
	s.mu.Lock()
	if !s.sendDone {
		s.sendDone = true
		close(s.c2s)
	}
	s.mu.Unlock()
	return nil
}
func (s *clientStream[C2S, S2C]) Header() (metadata.MD, error) { return nil, nil }
func (s *clientStream[C2S, S2C]) Trailer() metadata.MD         { return nil }
func (s *clientStream[C2S, S2C]) Context() context.Context     { return s.ctx }
func (s *clientStream[C2S, S2C]) SendMsg(m interface{}) error  { return s.Send(m.(*C2S)) }
func (s *clientStream[C2S, S2C]) RecvMsg(m interface{}) error {
	r, err := s.Recv()
	if err != nil {
		return err
	}
	proto.Merge(m.(proto.Message), any(r).(proto.Message))
	return nil
}

// server side

func (s *serverStream[C2S, S2C]) Send(m *S2C) error {
	simrt.ExitIfDead()
	simrt.Yield("net.ssend " + s.method)
	if err := s.sctx.Err(); err != nil {
		return status.FromContextError(err).Err()
	}
	if s.n.OnServerSend != nil {
		s.n.OnServerSend(s.method, s.to, m)
	}
	select {
	case s.s2c <- clone(m):
	default:
		return status.Error(codes.ResourceExhausted, "simnet: stream buffer full")
	}
	return nil
}

func (s *serverStream[C2S, S2C]) Recv() (*C2S, error) {
	simrt.ExitIfDead()
	for {
		select {
		case m, ok := <-s.c2s:
			simrt.Resume()
			if !ok {
				return nil, io.EOF
			}
			return m, nil
		case <-s.sctx.Done():
			simrt.Resume()
			return nil, status.FromContextError(s.sctx.Err()).Err()
		}
	}
}

func (s *serverStream[C2S, S2C]) SetHeader(metadata.MD) error  { return nil }
func (s *serverStream[C2S, S2C]) SendHeader(metadata.MD) error { return nil }
func (s *serverStream[C2S, S2C]) SetTrailer(metadata.MD)       {}
func (s *serverStream[C2S, S2C]) Context() context.Context     { return s.sctx }
func (s *serverStream[C2S, S2C]) SendMsg(m interface{}) error  { return s.Send(m.(*S2C)) }
func (s *serverStream[C2S, S2C]) RecvMsg(m interface{}) error {
	r, err := s.Recv()
	if err != nil {
		return err
	}
	proto.Merge(m.(proto.Message), any(r).(proto.Message))
	return nil
}
