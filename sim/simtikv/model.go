// Package simtikv is a model of a TiKV cluster as PD sees it: stores, regions
// (raft groups) with epochs, terms, peers and roles, and the commands PD sends
// in heartbeat responses. Source of truth is TiKV's documented behaviour
// (kvproto), not PD's accounting. It imports no PD package.
package simtikv

import (
	"bytes"
	"fmt"
	"sort"

	"github.com/pingcap/kvproto/pkg/metapb"
	"github.com/pingcap/kvproto/pkg/pdpb"
)

// Peer is a replica.
type Peer struct {
	ID, StoreID uint64
	Role        metapb.PeerRole
	Pending     bool // lagging (snapshot not applied yet)
}

// Region is a raft group.
type Region struct {
	ID           uint64
	Start, End   int // key indexes; End < 0: unbounded
	Ver, ConfVer uint64
	Term         uint64
	Peers        []Peer
	Leader       uint64 // peer id; 0: none
	SizeMB       uint64
	Keys         uint64
	WrittenBytes uint64
	ReadBytes    uint64
	Merged       bool // disappeared by merge
	// foreign: epoch changes not ordered by PD since the last heartbeat sent
	LastHB *pdpb.RegionHeartbeatRequest
}

// Store is a TiKV node.
type Store struct {
	ID       uint64
	Address  string
	Labels   map[string]string
	Up       bool
	Capacity uint64
	Used     uint64
	Version  string
}

// Model is the ground truth of the simulated TiKV cluster.
type Model struct {
	Stores  map[uint64]*Store
	Regions map[uint64]*Region
	NumKeys int
	nextID  uint64
	// StoreVersion is the TiKV version new stores report (default 5.0.0; below 5.0 PD does not use joint consensus / demotion)
	StoreVersion string
	// DownSeconds, when set, tells for how long a store has been unreachable (reported in down-peer statistics)
	DownSeconds func(store uint64) uint64
	// History of every heartbeat ever built (for stale / duplicate re-sends)
	Sent []*pdpb.RegionHeartbeatRequest
}

// KeyOf encodes a key index (0 = -inf / empty start).
func KeyOf(i int) []byte {
	if i <= 0 {
		return nil
	}
	return []byte(fmt.Sprintf("k%06d", i))
}

// EndKeyOf encodes an end key index (<0 = +inf).
func EndKeyOf(i int) []byte {
	if i < 0 {
		return nil
	}
	return []byte(fmt.Sprintf("k%06d", i))
}

// New creates a model with the given stores and one region covering everything on the first n stores.
func New(numKeys int, idBase uint64) *Model {
	return &Model{Stores: map[uint64]*Store{}, Regions: map[uint64]*Region{}, NumKeys: numKeys, nextID: idBase}
}

// AllocID returns a fresh id (regions and peers share the space, as in TiKV/PD).
func (m *Model) AllocID() uint64 { m.nextID++; return m.nextID }

// AddStore adds a store.
func (m *Model) AddStore(id uint64, labels map[string]string) *Store {
	ver := m.StoreVersion
	if ver == "" {
		ver = "5.0.0"
	}
	s := &Store{ID: id, Address: fmt.Sprintf("tikv%d:20160", id), Labels: labels, Up: true, Capacity: 1 << 40, Used: 1 << 30, Version: ver}
	m.Stores[id] = s
	return s
}

// MetaStore returns the metapb form.
func (s *Store) Meta() *metapb.Store {
	st := &metapb.Store{Id: s.ID, Address: s.Address, Version: s.Version}
	var keys []string
	for k := range s.Labels {
		keys = append(keys, k)
	}
	sort.Strings(keys)
	for _, k := range keys {
		st.Labels = append(st.Labels, &metapb.StoreLabel{Key: k, Value: s.Labels[k]})
	}
	return st
}

// SortedRegions returns live regions by start key.
func (m *Model) SortedRegions() []*Region {
	var rs []*Region
	for _, r := range m.Regions {
		if !r.Merged {
			rs = append(rs, r)
		}
	}
	sort.Slice(rs, func(i, j int) bool { return rs[i].Start < rs[j].Start })
	return rs
}

// Meta returns the metapb region.
func (r *Region) Meta() *metapb.Region {
	m := &metapb.Region{Id: r.ID, StartKey: KeyOf(r.Start), EndKey: EndKeyOf(r.End), RegionEpoch: &metapb.RegionEpoch{ConfVer: r.ConfVer, Version: r.Ver}}
	for _, p := range r.Peers {
		m.Peers = append(m.Peers, &metapb.Peer{Id: p.ID, StoreId: p.StoreID, Role: p.Role})
	}
	return m
}

// PeerByID finds a peer.
func (r *Region) PeerByID(id uint64) *Peer {
	for i := range r.Peers {
		if r.Peers[i].ID == id {
			return &r.Peers[i]
		}
	}
	return nil
}

// PeerOnStore finds the peer on a store.
func (r *Region) PeerOnStore(store uint64) *Peer {
	for i := range r.Peers {
		if r.Peers[i].StoreID == store {
			return &r.Peers[i]
		}
	}
	return nil
}

// LeaderPeer returns the leader peer (nil if none).
func (r *Region) LeaderPeer() *Peer {
	if r.Leader == 0 {
		return nil
	}
	return r.PeerByID(r.Leader)
}

// Heartbeat builds the heartbeat the leader would send now and remembers it.
func (m *Model) Heartbeat(r *Region) *pdpb.RegionHeartbeatRequest {
	hb := &pdpb.RegionHeartbeatRequest{
		Region:          r.Meta(),
		Term:            r.Term,
		ApproximateSize: r.SizeMB << 20,
		ApproximateKeys: r.Keys,
		BytesWritten:    r.WrittenBytes,
		BytesRead:       r.ReadBytes,
		KeysWritten:     r.WrittenBytes / 100,
		KeysRead:        r.ReadBytes / 100,
		Interval:        &pdpb.TimeInterval{StartTimestamp: 0, EndTimestamp: 10},
	}
	if lp := r.LeaderPeer(); lp != nil {
		hb.Leader = &metapb.Peer{Id: lp.ID, StoreId: lp.StoreID, Role: lp.Role}
	}
	for _, p := range r.Peers {
		if p.Pending {
			hb.PendingPeers = append(hb.PendingPeers, &metapb.Peer{Id: p.ID, StoreId: p.StoreID, Role: p.Role})
		}
		if st := m.Stores[p.StoreID]; st != nil && !st.Up && p.ID != r.Leader {
			secs := uint64(600)
			if m.DownSeconds != nil {
				secs = m.DownSeconds(p.StoreID)
			}
			hb.DownPeers = append(hb.DownPeers, &pdpb.PeerStats{Peer: &metapb.Peer{Id: p.ID, StoreId: p.StoreID, Role: p.Role}, DownSeconds: secs})
		}
	}
	r.LastHB = hb
	m.Sent = append(m.Sent, hb)
	return hb
}

// ---------------------------------------------------------------- spontaneous events

// Split splits r at key index `at` (Start < at < End). As in TiKV, the new region takes the left part
// and the original keeps the right part; both versions are bumped. Returns the new region.
func (m *Model) Split(r *Region, at int, newID uint64, newPeerIDs []uint64) *Region {
	left := &Region{ID: newID, Start: r.Start, End: at, Ver: r.Ver + 1, ConfVer: r.ConfVer, Term: r.Term, SizeMB: r.SizeMB / 2, Keys: r.Keys / 2}
	for i, p := range r.Peers {
		np := Peer{ID: newPeerIDs[i], StoreID: p.StoreID, Role: p.Role}
		left.Peers = append(left.Peers, np)
		if p.ID == r.Leader {
			left.Leader = np.ID
		}
	}
	r.Start = at
	r.Ver++
	r.SizeMB -= left.SizeMB
	r.Keys -= left.Keys
	m.Regions[left.ID] = left
	return left
}

// Adjacent returns the live region starting where r ends (nil if none).
func (m *Model) RightNeighbour(r *Region) *Region {
	if r.End < 0 {
		return nil
	}
	for _, o := range m.Regions {
		if !o.Merged && o.Start == r.End {
			return o
		}
	}
	return nil
}

// Merge merges source into target (adjacent, same peer stores). The target's version becomes
// max(source, target)+1 and it covers both ranges; the source disappears.
func (m *Model) Merge(source, target *Region) {
	v := source.Ver
	if target.Ver > v {
		v = target.Ver
	}
	target.Ver = v + 1
	if source.Start < target.Start {
		target.Start = source.Start
	} else {
		target.End = source.End
	}
	target.SizeMB += source.SizeMB
	target.Keys += source.Keys
	source.Merged = true
}

// Elect makes peer the leader (term+1).
func (r *Region) Elect(peerID uint64) {
	r.Leader = peerID
	r.Term++
}

// SameStores tells whether two regions have peers on the same stores (merge precondition).
func SameStores(a, b *Region) bool {
	if len(a.Peers) != len(b.Peers) {
		return false
	}
	for _, p := range a.Peers {
		if b.PeerOnStore(p.StoreID) == nil {
			return false
		}
	}
	return true
}

// Voters counts voters (incl. incoming, demoting).
func (r *Region) Voters() int {
	n := 0
	for _, p := range r.Peers {
		if p.Role != metapb.PeerRole_Learner {
			n++
		}
	}
	return n
}

// InJoint tells whether the region is in a joint state.
func (r *Region) InJoint() bool {
	for _, p := range r.Peers {
		if p.Role == metapb.PeerRole_IncomingVoter || p.Role == metapb.PeerRole_DemotingVoter {
			return true
		}
	}
	return false
}

// ---------------------------------------------------------------- commands from PD (heartbeat responses)

// CmdResult describes what happened to a command.
type CmdResult struct {
	Applied bool
	Why     string
	Kind    string
}

// Apply executes the command of a heartbeat response the way the leader's store would: only if the
// response's epoch equals the region's current epoch and it was addressed to the current leader.
func (m *Model) Apply(resp *pdpb.RegionHeartbeatResponse, newIDs func() uint64) CmdResult {
	r := m.Regions[resp.GetRegionId()]
	if r == nil || r.Merged {
		return CmdResult{Why: "no such region"}
	}
	if e := resp.GetRegionEpoch(); e.GetVersion() != r.Ver || e.GetConfVer() != r.ConfVer {
		return CmdResult{Why: fmt.Sprintf("stale epoch %v vs %d/%d", e, r.Ver, r.ConfVer)}
	}
	lp := r.LeaderPeer()
	if lp == nil || resp.GetTargetPeer().GetId() != lp.ID {
		return CmdResult{Why: "not addressed to the current leader"}
	}
	switch {
	case resp.GetChangePeer() != nil:
		cp := resp.GetChangePeer()
		return m.applyChangePeer(r, cp.GetChangeType(), cp.GetPeer())
	case resp.GetChangePeerV2() != nil:
		return m.applyChangePeerV2(r, resp.GetChangePeerV2().GetChanges())
	case resp.GetTransferLeader() != nil:
		p := r.PeerByID(resp.GetTransferLeader().GetPeer().GetId())
		if p == nil || p.Role != metapb.PeerRole_Voter && p.Role != metapb.PeerRole_IncomingVoter {
			return CmdResult{Kind: "transfer-leader", Why: "target is not a voter"}
		}
		if st := m.Stores[p.StoreID]; st == nil || !st.Up {
			return CmdResult{Kind: "transfer-leader", Why: "target store down"}
		}
		r.Elect(p.ID)
		return CmdResult{Applied: true, Kind: "transfer-leader"}
	case resp.GetMerge() != nil:
		target := m.Regions[resp.GetMerge().GetTarget().GetId()]
		if target == nil || target.Merged || !SameStores(r, target) || r.InJoint() || target.InJoint() {
			return CmdResult{Kind: "merge", Why: "target not mergeable"}
		}
		if !(r.End >= 0 && r.End == target.Start) && !(target.End >= 0 && target.End == r.Start) {
			return CmdResult{Kind: "merge", Why: "not adjacent"}
		}
		m.Merge(r, target)
		return CmdResult{Applied: true, Kind: "merge"}
	case resp.GetSplitRegion() != nil:
		hi := r.End
		if hi < 0 {
			hi = m.NumKeys
		}
		if hi-r.Start < 2 {
			return CmdResult{Kind: "split", Why: "too small"}
		}
		at := r.Start + (hi-r.Start)/2
		ids := make([]uint64, len(r.Peers))
		nid := newIDs()
		for i := range ids {
			ids[i] = newIDs()
		}
		m.Split(r, at, nid, ids)
		return CmdResult{Applied: true, Kind: "split"}
	}
	return CmdResult{Why: "empty response"}
}

func (m *Model) applyChangePeer(r *Region, t interface{ String() string }, peer *metapb.Peer) CmdResult {
	if r.InJoint() {
		return CmdResult{Kind: "change-peer", Why: "in joint state"}
	}
	switch t.String() {
	case "AddNode":
		if p := r.PeerByID(peer.GetId()); p != nil {
			if p.Role == metapb.PeerRole_Learner {
				p.Role = metapb.PeerRole_Voter
				p.Pending = false
				r.ConfVer++
				return CmdResult{Applied: true, Kind: "promote-learner"}
			}
			return CmdResult{Kind: "add-node", Why: "already a voter"}
		}
		if r.PeerOnStore(peer.GetStoreId()) != nil {
			return CmdResult{Kind: "add-node", Why: "store already has a peer"}
		}
		r.Peers = append(r.Peers, Peer{ID: peer.GetId(), StoreID: peer.GetStoreId(), Role: metapb.PeerRole_Voter, Pending: true})
		r.ConfVer++
		return CmdResult{Applied: true, Kind: "add-node"}
	case "AddLearnerNode":
		// AddLearnerNode for an existing voter demotes it (a follower only)
		if p := r.PeerByID(peer.GetId()); p != nil && p.StoreID == peer.GetStoreId() && p.Role == metapb.PeerRole_Voter {
			if p.ID == r.Leader {
				return CmdResult{Kind: "demote-follower", Why: "refused: peer is the leader"}
			}
			if r.Voters() <= 1 {
				return CmdResult{Kind: "demote-follower", Why: "refused: last voter"}
			}
			p.Role = metapb.PeerRole_Learner
			r.ConfVer++
			return CmdResult{Applied: true, Kind: "demote-follower"}
		}
		if r.PeerByID(peer.GetId()) != nil || r.PeerOnStore(peer.GetStoreId()) != nil {
			return CmdResult{Kind: "add-learner", Why: "peer or store already present"}
		}
		r.Peers = append(r.Peers, Peer{ID: peer.GetId(), StoreID: peer.GetStoreId(), Role: metapb.PeerRole_Learner, Pending: true})
		r.ConfVer++
		return CmdResult{Applied: true, Kind: "add-learner"}
	case "RemoveNode":
		p := r.PeerByID(peer.GetId())
		if p == nil {
			return CmdResult{Kind: "remove-node", Why: "no such peer"}
		}
		if p.ID == r.Leader {
			return CmdResult{Kind: "remove-node", Why: "refused: peer is the leader"}
		}
		if p.Role != metapb.PeerRole_Learner && r.Voters() <= 1 {
			return CmdResult{Kind: "remove-node", Why: "refused: last voter"}
		}
		m.removePeer(r, p.ID)
		r.ConfVer++
		return CmdResult{Applied: true, Kind: "remove-node"}
	}
	return CmdResult{Kind: "change-peer", Why: "unknown type"}
}

func (m *Model) removePeer(r *Region, id uint64) {
	for i := range r.Peers {
		if r.Peers[i].ID == id {
			r.Peers = append(r.Peers[:i], r.Peers[i+1:]...)
			return
		}
	}
}

func (m *Model) applyChangePeerV2(r *Region, changes []*pdpb.ChangePeer) CmdResult {
	if len(changes) == 0 {
		// leave joint
		if !r.InJoint() {
			return CmdResult{Kind: "leave-joint", Why: "not in joint state"}
		}
		if lp := r.LeaderPeer(); lp != nil && lp.Role == metapb.PeerRole_DemotingVoter {
			return CmdResult{Kind: "leave-joint", Why: "refused: leader is demoting"}
		}
		n := 0
		for i := range r.Peers {
			switch r.Peers[i].Role {
			case metapb.PeerRole_IncomingVoter:
				r.Peers[i].Role = metapb.PeerRole_Voter
				n++
			case metapb.PeerRole_DemotingVoter:
				r.Peers[i].Role = metapb.PeerRole_Learner
				n++
			}
		}
		r.ConfVer += uint64(n)
		return CmdResult{Applied: true, Kind: "leave-joint"}
	}
	if r.InJoint() {
		return CmdResult{Kind: "enter-joint", Why: "already in joint state"}
	}
	// enter joint: promote learners -> IncomingVoter, demote voters -> DemotingVoter (also plain add/remove in TiKV's
	// simple form when there is a single change)
	for _, c := range changes {
		p := r.PeerByID(c.GetPeer().GetId())
		switch c.GetChangeType().String() {
		case "AddNode":
			if p == nil || p.Role != metapb.PeerRole_Learner {
				return CmdResult{Kind: "enter-joint", Why: "promote of a non-learner"}
			}
		case "AddLearnerNode":
			if p == nil || p.Role != metapb.PeerRole_Voter {
				return CmdResult{Kind: "enter-joint", Why: "demote of a non-voter"}
			}
		default:
			return CmdResult{Kind: "enter-joint", Why: "unsupported change"}
		}
	}
	for _, c := range changes {
		p := r.PeerByID(c.GetPeer().GetId())
		if c.GetChangeType().String() == "AddNode" {
			p.Role = metapb.PeerRole_IncomingVoter
		} else {
			p.Role = metapb.PeerRole_DemotingVoter
		}
	}
	r.ConfVer += uint64(len(changes))
	return CmdResult{Applied: true, Kind: "enter-joint"}
}

// CheckInvariants asserts the model's own sanity (a slip here is a harness error, not a PD violation).
func (m *Model) CheckInvariants() error {
	rs := m.SortedRegions()
	for i, r := range rs {
		if i == 0 && r.Start != 0 {
			return fmt.Errorf("model: first region %d starts at %d", r.ID, r.Start)
		}
		if i > 0 && rs[i-1].End != r.Start {
			return fmt.Errorf("model: gap/overlap between regions %d and %d", rs[i-1].ID, r.ID)
		}
		if i == len(rs)-1 && r.End >= 0 {
			return fmt.Errorf("model: last region %d ends at %d", r.ID, r.End)
		}
		seen := map[uint64]bool{}
		for _, p := range r.Peers {
			if seen[p.StoreID] {
				return fmt.Errorf("model: region %d has two peers on store %d", r.ID, p.StoreID)
			}
			seen[p.StoreID] = true
		}
		if r.Leader != 0 {
			lp := r.LeaderPeer()
			if lp == nil {
				return fmt.Errorf("model: region %d leader %d is not a peer", r.ID, r.Leader)
			}
			if lp.Role == metapb.PeerRole_Learner {
				return fmt.Errorf("model: region %d leader is a learner", r.ID)
			}
		}
		if r.Voters() == 0 {
			return fmt.Errorf("model: region %d has no voter", r.ID)
		}
	}
	return nil
}

// KeyRangeOverlap tells whether two metapb regions overlap.
func KeyRangeOverlap(a, b *metapb.Region) bool {
	aEndInf, bEndInf := len(a.EndKey) == 0, len(b.EndKey) == 0
	return (bEndInf || bytes.Compare(a.StartKey, b.EndKey) < 0) && (aEndInf || bytes.Compare(b.StartKey, a.EndKey) < 0)
}
