//go:build verif

package syncer

import (
	"github.com/tikv/pd/server/core"
	"github.com/tikv/pd/server/kv"
)

// SimHistory exposes the change log kept for region synchronisation.
type SimHistory struct{ h *historyBuffer }

// SimNewHistory creates a history buffer of the given capacity on kv (reloading the persisted index).
func SimNewHistory(size int, kv kv.Base) *SimHistory { return &SimHistory{newHistoryBuffer(size, kv)} }

func (s *SimHistory) Record(r *core.RegionInfo)               { s.h.Record(r) }
func (s *SimHistory) RecordsFrom(i uint64) []*core.RegionInfo { return s.h.RecordsFrom(i) }
func (s *SimHistory) ResetWithIndex(i uint64)                 { s.h.ResetWithIndex(i) }
func (s *SimHistory) GetNextIndex() uint64                    { return s.h.GetNextIndex() }

// SimHistoryOf exposes a syncer's history buffer.
func (s *RegionSyncer) SimHistoryOf() *SimHistory { return &SimHistory{s.history} }
