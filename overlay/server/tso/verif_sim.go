//go:build verif

package tso

import "time"

// SimPeek is a read-only view of one allocator's in-memory TSO, read by the
// simulator's monitor while every task is parked (no lock taken).
type SimPeek struct {
	DC          string
	Physical    time.Time
	Logical     int64
	LastSaved   time.Time
	HasSaved    bool
	Initialized bool
	Suffix      int
	LeaseOK     bool
}

func peekOracle(t *timestampOracle) SimPeek {
	p := SimPeek{DC: t.dcLocation, Physical: t.tsoMux.physical, Logical: t.tsoMux.logical, Suffix: t.suffix}
	p.Initialized = !p.Physical.IsZero() && p.Physical.UnixNano() != (time.Time{}).UnixNano()
	if v := t.lastSavedTime.Load(); v != nil {
		p.LastSaved = v.(time.Time)
		p.HasSaved = true
	}
	return p
}

// SimPeekAll returns a view of every allocator of this manager.
func (am *AllocatorManager) SimPeekAll() []SimPeek {
	var out []SimPeek
	for _, ag := range am.mu.allocatorGroups {
		if ag == nil || ag.allocator == nil {
			continue
		}
		var p SimPeek
		switch a := ag.allocator.(type) {
		case *GlobalTSOAllocator:
			p = peekOracle(a.timestampOracle)
		case *LocalTSOAllocator:
			p = peekOracle(a.timestampOracle)
		default:
			continue
		}
		p.DC = ag.dcLocation
		p.LeaseOK = ag.leadership.Check()
		out = append(out, p)
	}
	return out
}

// SimMaxSuffix returns the manager's in-memory max suffix (monitor/oracle use; no lock).
func (am *AllocatorManager) SimMaxSuffix() int { return int(am.mu.maxSuffix) }
