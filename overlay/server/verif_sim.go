//go:build verif

package server

// Simulator entry points (copied into the scratch tree by simbuild; never part of /repo).

import (
	"context"
	"net/http"
	"time"

	"github.com/tikv/pd/server/cluster"
	"github.com/tikv/pd/server/config"
	"github.com/tikv/pd/server/core"
	"github.com/tikv/pd/server/member"
	"github.com/tikv/pd/server/tso"
	"go.etcd.io/etcd/clientv3"

	"pdsim/simrt"
)

// NewSimServer builds a Server around an injected etcd client: it fills the
// fields startEtcd would fill and then runs the real startServer.
func NewSimServer(ctx context.Context, cfg *config.Config, client *clientv3.Client, memberID uint64, httpClient *http.Client) (*Server, error) {
	s := &Server{
		cfg:            cfg,
		persistOptions: config.NewPersistOptions(cfg),
		ctx:            ctx,
		startTimestamp: time.Now().Unix(),
	}
	s.handler = newHandler(s)
	s.client = client
	s.httpClient = httpClient
	s.member = member.NewMember(nil, client, memberID)
	s.lg = cfg.GetZapLogger()
	s.logProps = cfg.GetZapLogProperties()
	if err := s.startServer(ctx); err != nil {
		return nil, err
	}
	return s, nil
}

// SimStartLoops starts the real leader loop and TSO allocator daemon as simulator tasks.
func (s *Server) SimStartLoops(withEncryptionLoop bool) {
	s.serverLoopCtx, s.serverLoopCancel = context.WithCancel(s.ctx)
	s.serverLoopWg.Add(2)
	simrt.Go(s.leaderLoop)
	simrt.Go(s.tsoAllocatorLoop)
	if withEncryptionLoop {
		s.serverLoopWg.Add(1)
		simrt.Go(s.encryptionKeyManagerLoop)
	}
}

// SimStorage exposes the storage.
func (s *Server) SimStorage() *core.Storage { return s.storage }

// SimTSOManager exposes the allocator manager.
func (s *Server) SimTSOManager() *tso.AllocatorManager { return s.tsoAllocatorManager }

// SimMember exposes the member.
func (s *Server) SimMember() *member.Member { return s.member }

// SimCluster exposes the raft cluster object (may be not running).
func (s *Server) SimCluster() *cluster.RaftCluster { return s.cluster }

// SimBootstrapCluster calls the unexported bootstrapCluster.
func (s *Server) SimIsServing() bool { return !s.IsClosed() }
