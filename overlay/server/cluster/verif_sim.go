//go:build verif

package cluster

import "github.com/tikv/pd/server/schedule"

// SimCheckStores runs one round of the background store check (offline -> tombstone burying).
func (c *RaftCluster) SimCheckStores() { c.checkStores() }

// SimBuryStore calls the unexported buryStore.
func (c *RaftCluster) SimBuryStore(id uint64) error { return c.buryStore(id) }

// SimOperatorController exposes the operator controller of the running coordinator.
func (c *RaftCluster) SimOperatorController() *schedule.OperatorController {
	c.RLock()
	defer c.RUnlock()
	if c.coordinator == nil {
		return nil
	}
	return c.coordinator.opController
}

// SimCheckerController exposes the checker controller of the running coordinator.
func (c *RaftCluster) SimCheckerController() *schedule.CheckerController {
	c.RLock()
	defer c.RUnlock()
	if c.coordinator == nil {
		return nil
	}
	return c.coordinator.checkers
}
