//go:build verif

package replication

// SimSetScanBatch lowers the region scan batch / sample sizes so that small clusters cross batch boundaries.
func SimSetScanBatch(batch, sample int) { regionScanBatchSize, regionMinSampleSize = batch, sample }

// SimTickDR runs one tick of the DR state machine (only when the background loop is not running).
func (m *ModeManager) SimTickDR() { m.tickDR() }
