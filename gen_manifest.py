#!/usr/bin/env python3
# Regenerates MANIFEST.json from the table below (kept in one place so that it stays valid).
import json
props = [json.loads(l) for l in open('/verif/properties.jsonl')]
ASSUME = "Trusted base: the simulator (simrt scheduler, simetcd/simnet/simdisk/simtikv models), the go/ast rewrite (R1-R5) of a scratch copy of /repo, the deterministic-runtime overlay, and the oracle code. etcd, gRPC, TiKV and the OS clock are models; interleavings are explored at seams only; sampling, not proof."
claimed = {
 "C08": dict(level="exploration", engine="e2", design="7/C08",
   text="Partial claim. A bootstrapped real PD leader with the real coordinator / OperatorController and 3-6 stores heartbeating through the real RegionHeartbeat handler over simulated streams; an admin client asks the real Handler / operator builder for transfer-leader / transfer-region (voters and learners) / transfer-peer / add-peer / add-learner / remove-peer operators with and without joint consensus, on regions in whatever state earlier operators left them; a TiKV model (which refuses what TiKV refuses) executes PD's commands one step at a time with drawn delays. Oracles per step: the current leader is never removed or demoted, a joint state is not left while the leader is a demoting voter, leadership never goes to a learner / demoting / absent peer, no second peer on a store, the last voter is never removed; per successful operator: voter count never below min(origin, target) and final peers / roles / leader exactly as requested. Only operators built inside the sampled runs are examined; the universal statement over all builder inputs is a pure-function question that sampling does not settle. One genuine gap (demote-before-add without joint consensus) is a known finding.",
   technique="deterministic simulation executing each operator step on a TiKV model with per-step safety oracles",
   note="C08 is claimed at exploration level for the step-by-step execution only; Builder.Build as a pure function of (origin, target, flags) is not enumerated."),
 "C09": dict(level="exploration", engine="e2", design="7/C09",
   text="The same world as C08 with 6-35 admin requests (incl. merge, split, remove-operator) and, in 2/3 of the runs, foreign conf changes, leader changes and splits injected at arbitrary points between heartbeats and dispatches. Monitor after every scheduler step on the real OperatorController: operator status only moves along the allowed graph and end statuses are absorbing; an operator first seen in the running set carries the region's epoch as served at admission; an operator that left the running set is in an end status and is remembered with it by GetOperatorStatus; every command PD sends carries an (epoch, leader) the region actually reported; an operator is not cancelled as stale while only its own steps changed the region.",
   technique="deterministic simulation with a step-wise operator life-cycle monitor and command/heartbeat history oracle"),
 "C14": dict(level="fault_enumeration", engine="e2", design="7/C14",
   text="A bootstrapped real PD leader with 3-5 stores holding region peers. Sequential mode: groups of 12 runs share one sequence of PutStore / StoreHeartbeat (real gRPC handlers) and RemoveStore / UpStore / SetStoreWeight / UpdateStoreLabels / RemoveTombStoneRecords / checkStores (real RaftCluster methods) interleaved with region placements reported by the TiKV model; run k makes the k-th storage write of store data fail: a failed change leaves the served digest unchanged, after a successful change the stored record equals the served one, tombstone heartbeats and re-registrations are refused. Concurrent mode: the real checkStores loop and a heartbeat stream run concurrently. Monitor after every scheduler step: only Up->Offline, Offline->Up unless destroyed, Offline->Tombstone; a store holds no region peer at the step it turns Tombstone; no two live stores share an address.",
   technique="deterministic simulation with an enumerated storage failure at each store write and a step-wise state-machine monitor"),
 "C19": dict(level="exploration", engine="e2", design="7/C19",
   text="A bootstrapped real PD leader in (or switched into) dr-auto-sync mode; the real ModeManager.Run loop ticks under the fake clock for 8-25 simulated minutes (scan batch lowered to 2-5); stores heartbeat while up, regions report integrity/simple-majority with current or stale state ids, completely or with gaps, in any order, while splitting and merging; a nemesis takes datacenters or single stores down/up, switches majority <-> dr-auto-sync, arms a failure of the next replication-status write and fails file replication. Monitor after every scheduler step on GetReplicationStatus(): fresh state id already in storage when served; ->async only with one dc at/over its replica count, a possible majority and the timeout passed; async->sync_recover only with both dcs below; sync_recover->sync only if regions seen with integrity under the current id cover the whole key space. Claimed as exploration (the enumerated single-failure form of the design was replaced by armed failures of the next status write at random transitions).",
   technique="deterministic simulation under a fake clock with a step-wise transition-guard monitor"),
 "C06": dict(level="exploration", engine="e2", design="7/C06",
   text="A bootstrapped real PD leader; a TiKV model produces arbitrary split / merge / conf-change / leader-change histories; fresh and re-delivered (delayed, duplicated, reordered) heartbeats are handled by the real RaftCluster.HandleRegionHeartbeat one at a time or from 2-4 concurrent streams interleaved at lock / storage-call granularity. Monitors after every scheduler step (read through the locked API, deferred while a parked task holds the lock): served version / conf_ver / term of a region id never decrease while it stays served; no two served regions overlap. Sequential mode: a stale heartbeat is refused and leaves the cache unchanged, a fresh one is accepted, displaced regions are gone from cache and (after flush) from storage.",
   technique="deterministic simulation with step-wise cache invariants and a sequential refinement oracle"),
 "C07": dict(level="exploration", engine="e2", design="7/C07",
   text="After every change of the region set (arbitrary put/remove storms on a stand-alone BasicCluster over key spaces of 6..200 keys, and the heartbeat histories produced by the simulated cluster) a linear-scan reference over GetRegions() is compared with SearchRegion, SearchPrevRegion, ScanRange with limits, GetOverlaps, GetAdjacentRegions, index size = map size, per-store leader / follower / learner / pending counts and sizes, and Rand*Region picks. The property has no schedule or fault of its own: simulation contributes the histories and the step-wise monitoring (honest scope, DESIGN.md).",
   technique="deterministic simulation producing operation histories, checked against a linear-scan reference model after every step"),
 "C13": dict(level="fault_enumeration", engine="e2", design="7/C13",
   text="Groups of 10 runs share one seeded sequence of rule operations (single, batch with delete-by-prefix, group, bundle) on the real RuleManager over real core.Storage on the simulated etcd; run k makes the k-th storage write of rule data fail (clean or applied-but-reported-failed) and retries. After every accepted update a naive reference rule list (documented order / override semantics) must be valid and agree on every observable (rules by key, rules for region ranges, split keys, all rules, groups), and a fresh RuleManager loaded from storage must serve the same; rejected / failed updates leave the served digest unchanged; retry converges.",
   technique="deterministic simulation with an enumerated storage failure at each write of each update and a reference-model refinement check"),
 "C16": dict(level="exploration", engine="e2", design="7/C16",
   text="Two modes under the seeded scheduler: the real change-log buffer (capacities 1..300) driven by random record bursts / reads inside, at the edges and outside the window / resets / restarts and compared record by record with a slice model; and a leader-side and a follower-side real RegionSyncer connected through the simulated network (0..333 regions, with/without leaders, flow statistics; full sync, then incremental changes with follower stream restarts). Oracles: every batch the leader sends pairs each region with the leader peer and flow it holds for that version; the follower ends with exactly the newest record delivered for every region; a full sync covers every region.",
   technique="deterministic simulation with a reference log model and send/deliver history oracles on the simulated stream"),
 "C17": dict(level="fault_enumeration", engine="e2", design="7/C17",
   text="Real core.Storage / RegionStorage / BasicCluster over simulated etcd and disk. etcd backend: 0..250 (thorough: 10500) items around every paging boundary, dense/sparse/huge/top-of-range ids, weights, deletes, large keys and injected message-too-large errors forcing the adaptive page size down; full load = saved-and-not-deleted multiset. Region storage backend: groups of 8 runs share a save/delete/flush history and run k stops the process right after the k-th Flush returned; a fresh instance must load everything covered by a returned Flush/Close. Prune: split/merge histories leaving stale overlapping records; after LoadRegionsOnce storage and cache describe the same non-overlapping set.",
   technique="deterministic simulation with enumerated stop points between region-storage batches and reference multiset/model comparison"),
 "C05": dict(level="exploration", engine="e1", design="7/C05",
   text="Seeded search: 3 real PD members in 1-3 dc-locations with Local TSO enabled (real local-allocator election loops and the real estimate / SyncMaxTS / differentiate protocol over the simulated network), optionally a datacenter joining later, local clients per datacenter and global clients, optionally under crash / partition / etcd-leader-move / net-cut / resign. Oracles: timestamps of different allocators never equal; global above every local completed before it began and local after a completed global above it; suffix per dc assigned once, unique, and the reported suffix width covers every suffix assigned before the request; per-allocator C01 order/uniqueness. Several genuine gaps of the (experimental) Local TSO feature around stale in-memory dc-location/suffix views are listed as known findings; one (duplicate Global TSO for concurrent requests) was repaired.",
   technique="deterministic simulation with cross-allocator history oracle"),
 "C15": dict(level="exploration", engine="e1", design="7/C15",
   text="Seeded search over interleavings of 2-5 concurrent UpdateGCSafePoint/GetGCSafePoint clients against the real handlers of a bootstrapped leader at the granularity of individual storage reads and writes (optionally with clean storage failures, delays, per-task freezes). The recorded history is checked with porcupine against a max-register (failed updates: maybe applied at any later time); a commit hook in the simulated etcd asserts that the stored safe point never decreases; a sequential service-safe-point client is checked operation by operation against the stored entries (min never above a live service, below-min registration not recorded, gc_worker entry always present with infinite TTL, expired / non-positive-TTL entries gone).",
   technique="deterministic simulation; porcupine linearizability check against a max-register model plus commit-level monotonicity invariant"),
 "C18": dict(level="fault_enumeration", engine="e1", design="7/C18",
   text="Fault enumeration: groups of 12 runs share one seeded sequence of configuration updates (valid and out-of-domain values for all six sections) applied through the real Server setters; run k makes the k-th configuration write fail (clean, or applied-but-reported-failed). Per update: out-of-domain never accepted, rejected => served configuration JSON unchanged; finally the leader is crashed and a new leader's reloadConfigFromKV must serve the last accepted configuration (modulo the documented trace-region-flow migration).",
   technique="deterministic simulation with an enumerated storage failure at each configuration write and a crash/reload refinement check"),
 "C20": dict(level="exploration", engine="e1", design="7/C20",
   text="Seeded search: 1-3 members started concurrently race initOrGetClusterID (etcd errors incl. unknown outcome), then rounds of 2-6 concurrent Bootstrap requests with distinct and malformed payloads to leader and non-leaders, with a leader change between rounds, plus requests carrying a foreign cluster id to eight handlers. Oracles in the simulated etcd: /pd/cluster_id written once and reported by every member; bootstrap keys written by exactly one commit whose store/region/meta all come from one request which is the acknowledged (or an unknown-outcome) one; at most one acknowledgement; malformed never acknowledged; foreign cluster id always refused.",
   technique="deterministic simulation with commit-level exactly-once oracle"),
 "C01": dict(level="exploration", engine="e1", design="7/C01",
   text="Seeded search: 1-3 real PD servers, 2-6 concurrent TSO stream clients with counts 1..2^18, manual reset-ts (accepted/rejected), under crash+restart, lease loss, leader-key deletion, etcd-leader moves, etcd errors (clean and unknown outcome), partitions, whole-process and per-task stalls and wall-clock skew/jumps up to hours. History oracle: granted ranges of one allocator pairwise disjoint; a request that began after another completed gets strictly larger values; logical part fits 18 bits; response count equals request count.",
   technique="deterministic simulation (seeded scheduler + fault injection) with a real-time-order/uniqueness history oracle"),
 "C02": dict(level="fault_enumeration", engine="e1", design="7/C02",
   text="Fault enumeration over sampled histories: groups of 40 runs share one seeded history; run k crashes the serving leader immediately after its k-th storage commit and lets a member with a slower clock take over; other runs use a random nemesis incl. unknown-outcome errors on window saves. Invariants: after every scheduler step the in-memory physical time of every live allocator is below the stored window; on every commit the stored window never drops below an acknowledged value; every granted physical is below the stored window; plus C01's order/uniqueness oracle across the crash.",
   technique="deterministic simulation with enumerated crash points after each storage write, step-wise invariants over memory vs durable state"),
 "C03": dict(level="exploration", engine="e1", design="7/C03",
   text="Seeded search: 2-3 members contending for the PD leadership under crash, partition (lease expiry, possibly late), resign, leader-key deletion, etcd-leader moves, stalls; an intruder task makes owners and non-owners attempt guarded writes at arbitrary points. Oracles evaluated inside the simulated etcd at every commit: a leader record is never overwritten while present; every change of a guarded key (TSO window, id window, leader priority, dc-location delete) was issued by the member named in the leader record at commit time; a served TSO/AllocID implies an etcd-live campaign lease of the server at some instant of the request interval.",
   technique="deterministic simulation with commit-level ownership oracle inside the simulated etcd"),
 "C04": dict(level="exploration", engine="e1", design="7/C04",
   text="Seeded search over schedules and fault sequences: 2-3 real id.Allocator instances on one simulated etcd with the leader record switching/disappearing and instances dropped/recreated, and 1-3 real PD servers serving AllocID under crashes, lease loss, partitions, etcd errors (clean and unknown-outcome). Oracles: global uniqueness, per-allocator monotonicity for non-overlapping calls, id <= largest durably stored window, window only extended by the recorded leader, bounded liveness after faults stop. Exploration is the right level: the property quantifies over interleavings and crash points that only a controlled scheduler can produce; no exhaustive bound is claimed.",
   technique="deterministic simulation (seeded scheduler + fault injection) with invariant and history oracles"),
}
NA = {
 "C12": "pure stateless function of its input (placement.FitRegion): no schedule, clock, I/O, fault or history for a simulator to control; deciding optimality needs enumeration against a brute-force reference, which is a different technique family",
}
checks = []
for p in props:
    i = p["id"]
    if i in claimed:
        c = claimed[i]
        checks.append({
            "property_id": i,
            "quick_cmd": f"./check {i} --tier quick",
            "thorough_cmd": f"./check {i} --tier thorough",
            "evidence_file": f"/verif/evidence/{i}.json",
            "replay_cmd_template": "./check --replay {path}",
            "engine": c["engine"],
            "level_claimed": {"category": c["level"], "text": c["text"], "design_ref": "DESIGN.md §" + c["design"]},
            "level_note": ASSUME + (" " + c["note"] if "note" in c else ""),
            "technique": c["technique"],
        })
na = []
for p in props:
    i = p["id"]
    if i not in claimed:
        na.append({"property_id": i, "reason": NA.get(i, "check not built yet (work in progress; planned in DESIGN.md §7)")})
m = {
 "version": 1,
 "setup_cmd": "./setup.sh",
 "hooks": {"guard": "verif", "enable": "every check copies /repo's working tree to a scratch directory, applies the simbuild go/ast rewrite (R1-R5) there, adds the //go:build verif files from /verif/overlay and builds with `-tags verif` plus a deterministic-runtime -overlay; /repo itself carries no hooks",
           "baseline_off_cmd": "cd /repo && go test -vet=off -count=1 -timeout 25m ./...", "source_commits": [], "add_only": True},
 "engines": [
   {"name": "e1", "path": "/verif/sim/engine/e1", "serves_properties": sorted(k for k,v in claimed.items() if v["engine"]=="e1"), "kind_free_text": "1-3 real PD servers (leader loop, TSO, id, gRPC handler methods) over simulated etcd/network under a seeded scheduler and nemesis"},
   {"name": "e2", "path": "/verif/sim/engine/e2", "serves_properties": sorted(k for k,v in claimed.items() if v["engine"]=="e2"), "kind_free_text": "PD leader with a bootstrapped cluster, simulated TiKV stores/regions, storage and sync components under a seeded scheduler"},
 ],
 "checks": checks,
 "notes": "Deterministic simulation with fault injection; see DESIGN.md. Exit codes: 0 held, 1 violation (VIOLATION line), 2 infrastructure.",
 "not_applicable": na,
}
json.dump(m, open('/verif/MANIFEST.json','w'), indent=1)
print("claimed", sorted(claimed), "na", len(na))
