#!/bin/bash
# runall.sh [tier] [props...]: run every claimed check once; prints one line per property. exit 0 iff all passed.
cd /verif
TIER="${1:-quick}"; shift
PROPS="$@"
[ -n "$PROPS" ] || PROPS=$(python3 -c "import json;print(' '.join(c['property_id'] for c in json.load(open('/verif/MANIFEST.json'))['checks']))")
RC=0
for p in $PROPS; do
  T0=$(date +%s)
  OUT=$(./check $p --tier $TIER 2>&1); R=$?
  echo "$p exit=$R $(( $(date +%s) - T0 ))s $(echo "$OUT" | grep -c '^KNOWN-FINDING') known | $(echo "$OUT" | grep '^pdsim:' | tail -1 | cut -c1-160)"
  [ $R -eq 0 ] || { RC=1; echo "$OUT" | grep -E "^(VIOLATION|REPRODUCED|check:|pdsim: (WATCHDOG|worker))" | head -5; }
done
exit $RC
