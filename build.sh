#!/bin/bash
# build.sh <scratch-dir> <engine-pkg> <out-binary>: copy+rewrite /repo's working tree and build one engine.
# exit 2 on any failure (infrastructure).
set -u
export GOFLAGS=-mod=mod GOPROXY=off GOSUMDB=off GOTOOLCHAIN=local GOWORK=off
V=/verif
S="$1"; PKG="$2"; OUT="$3"
GO=go1.26.8
mkdir -p "$S" $V/.build || exit 2
if [ ! -x $V/.build/simbuild ] || [ $V/simbuild/main.go -nt $V/.build/simbuild ] || [ $V/simbuild/rewrite.go -nt $V/.build/simbuild ] || [ $V/simbuild/rtoverlay.go -nt $V/.build/simbuild ]; then
  (cd $V/simbuild && $GO build -o $V/.build/simbuild .) || exit 2
fi
if [ ! -f $V/.build/rt/rt.json ] || [ $V/.build/simbuild -nt $V/.build/rt/rt.json ]; then
  mkdir -p $V/.build/rt && $V/.build/simbuild rt -goroot "$($GO env GOROOT)" -out $V/.build/rt >/dev/null || exit 2
fi
REPO="${VERIF_REPO:-/repo}"
$V/.build/simbuild tree -repo "$REPO" -out "$S/pd" -overlay $V/overlay || exit 2
sed "s#=> /repo#=> $S/pd#" $V/sim/go.mod > "$S/go.mod" || exit 2
cp "$REPO/go.sum" "$S/go.sum" || exit 2
(cd $V/sim && $GO build -tags verif -trimpath -overlay $V/.build/rt/rt.json -modfile="$S/go.mod" -o "$OUT" "$PKG") || exit 2
