#!/bin/bash
# Applies every patch in /verif/mutants (and /verif/seeded/*/patch.diff) to a scratch worktree and requires the owning
# property's check to report a violation. Usage: selftest_sensitivity.sh [budget_s] [pattern]
cd /verif
BUD="${1:-60}"; PAT="${2:-}"
for f in mutants/*.diff seeded/*/patch.diff; do
  [ -f "$f" ] || continue
  case "$f" in *$PAT*) ;; *) continue;; esac
  if [[ "$f" == seeded/* ]] && python3 -c "import json,sys;sys.exit(0 if json.load(open('$(dirname $f)/meta.json')).get('undecidable') else 1)"; then echo "SKIPPED (changes an API the harness links against) [$f]"; continue; fi
  if [[ "$f" == seeded/* ]]; then P=$(python3 -c "import json,sys;m=json.load(open('$(dirname $f)/meta.json'));print(m.get('checked_by',[m['property']])[0])"); else P=$(basename "$f" | cut -c1-3); fi
  ./mutcheck.sh "$f" "$P" "$BUD" 2>&1 | grep -E "^(CAUGHT|MISSED|ERROR|PATCH-FAILED)" | sed "s#\$# [$f]#"
done
