#!/bin/bash
# mutcheck.sh <patch.diff> <Cnn> [budget_s] [tier]: apply a patch to a scratch worktree of /repo and run the
# property's check against it. Prints CAUGHT / MISSED. The worktree is removed afterwards. /repo is not touched.
set -u
PATCH=$(readlink -f "$1"); PROP="$2"; BUD="${3:-60}"; TIER="${4:-quick}"
WT=$(mktemp -d /tmp/pdmut-XXXXXX)
git -C /repo worktree add -q --detach "$WT" HEAD || exit 2
cleanup() { git -C /repo worktree remove --force "$WT" 2>/dev/null; rm -rf "$WT"; }
trap cleanup EXIT
git -C "$WT" apply "$PATCH" || { echo "PATCH-FAILED $PATCH"; exit 2; }
mkdir -p /tmp/pdmut-replays
OUT=$(VERIF_REPO="$WT" VERIF_SHRINK_S="${VERIF_SHRINK_S:-8}" VERIF_BUDGET_S="$BUD" VERIF_EVIDENCE_DIR=/tmp/pdmut-evidence VERIF_REPLAY_DIR=/tmp/pdmut-replays /verif/check "$PROP" --tier "$TIER" 2>&1)
RC=$?
echo "$OUT" | grep -E "^(VIOLATION|REPRODUCED|KNOWN-FINDING|pdsim:|  )" | head -8
if [ $RC -eq 1 ]; then echo "CAUGHT $PROP $(basename $PATCH)"; elif [ $RC -eq 0 ]; then echo "MISSED $PROP $(basename $PATCH)"; else echo "ERROR($RC) $PROP $(basename $PATCH)"; echo "$OUT" | tail -20; fi
exit 0
