#!/bin/bash
# mkmut.sh <name> <file-relative-to-repo> <python-expr old> <new>: create mutants/<name>.diff by replacing text once
set -eu
NAME="$1"; FILE="$2"; OLD="$3"; NEW="$4"
WT=$(mktemp -d /tmp/pdmk-XXXXXX)
git -C /repo worktree add -q --detach "$WT" HEAD
trap 'git -C /repo worktree remove --force "$WT" 2>/dev/null; rm -rf "$WT"' EXIT
python3 - "$WT/$FILE" "$OLD" "$NEW" <<'PY'
import sys
p,old,new=sys.argv[1:4]
s=open(p).read()
assert s.count(old)>=1, "pattern not found"
s=s.replace(old,new,1)
open(p,'w').write(s)
PY
(cd "$WT" && GOFLAGS=-mod=mod go build ./server/... 2>&1 | head -5)
git -C "$WT" diff > /verif/mutants/$NAME.diff
echo "wrote mutants/$NAME.diff ($(wc -l < /verif/mutants/$NAME.diff) lines)"
