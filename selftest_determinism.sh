#!/bin/bash
# Determinism self-test: for every property profile, runs 0..N-1 are executed in separate processes at
# GOMAXPROCS 1, 4 and 16 (batch) and a sample of runs again alone in fresh processes; all event-log digests must agree.
# Usage: selftest_determinism.sh [N=40] [props...]
cd /verif
N="${1:-40}"; shift || true
PROPS="${*:-C01 C02 C03 C04 C05 C06 C07 C08 C09 C10 C11 C13 C14 C15 C16 C17 C18 C19 C20}"
S=$(mktemp -d "${TMPDIR:-/tmp}/pdsim-det-XXXXXX"); trap 'rm -rf "$S"' EXIT
./build.sh "$S" ./engine/pdsim "$S/pdsim" >"$S/build.log" 2>&1 || { cat "$S/build.log"; exit 2; }
export GODEBUG=randseednop=0 VERIF_DIR=/verif
FAIL=0
for p in $PROPS; do
  for g in 1 4 16; do GOMAXPROCS=$g "$S/pdsim" digests $p quick 7 0 $N > "$S/$p.$g" & done; wait
  d=0
  cmp -s "$S/$p.1" "$S/$p.4" || d=1; cmp -s "$S/$p.1" "$S/$p.16" || d=1
  # solo runs in fresh processes
  for r in 3 11 $((N-1)); do
    GOMAXPROCS=2 "$S/pdsim" digests $p quick 7 $r $((r+1)) > "$S/solo"
    grep -q "^$(cat "$S/solo")\$" "$S/$p.1" || d=1
  done
  if [ $d -eq 0 ]; then echo "DETERMINISTIC $p ($N runs x 3 GOMAXPROCS + 3 solo)"; else echo "NONDETERMINISTIC $p"; FAIL=1; diff "$S/$p.1" "$S/$p.16" | head -5; fi
done
exit $FAIL
