#!/usr/bin/env python3
# Prints a markdown table of the measured cost / reach per property from evidence/*.json (for DESIGN.md section 18).
import json, glob, os
rows = []
for f in sorted(glob.glob('/verif/evidence/C*.json')):
    e = json.load(open(f)); c = e['coverage']
    faults = sum(v for k, v in c.get('faults_fired', {}).items())
    kinds = len(c.get('faults_fired', {}))
    rows.append((e['property_id'], e['tier'], c['evaluations'], int(c['runs_per_hour']), int(c['simulated_time_s']), c['scheduler_steps'],
                 c['distinct_interleavings'], c['distinct_nontrivial'], kinds, faults, sum(c.get('anomalies', {}).values()), len(c.get('known_findings_seen', {}))))
print('| id | tier | runs | runs/hour | simulated s | scheduler steps | distinct interleavings | non-trivial | fault kinds fired | faults fired | anomalies | known findings seen |')
print('|---|---|---|---|---|---|---|---|---|---|---|---|')
for r in rows:
    print('| ' + ' | '.join(str(x) for x in r) + ' |')
